"""IDPool and CNF with the PySAT semantics circuitgraph relies on."""


class IDPool:
    """Map hashable objects to consecutive positive integers (PySAT API)."""

    def __init__(self, start_from=1, occupied=None):
        self.top = start_from - 1
        self.obj2id = {}
        self.id2obj = {}

    def id(self, obj=None):
        if obj is None:
            self.top += 1
            return self.top
        try:
            return self.obj2id[obj]
        except KeyError:
            self.top += 1
            self.obj2id[obj] = self.top
            self.id2obj[self.top] = obj
            return self.top

    def obj(self, vid):
        return self.id2obj.get(vid)


class CNF:
    """Clause container; `nv` is the largest variable seen in a clause."""

    def __init__(self, from_clauses=None):
        self.nv = 0
        self.clauses = []
        self.comments = []
        if from_clauses:
            for cl in from_clauses:
                self.append(cl)

    def append(self, clause):
        clause = list(clause)
        for lit in clause:
            v = abs(lit)
            if v > self.nv:
                self.nv = v
        self.clauses.append(clause)

    def extend(self, clauses):
        for cl in clauses:
            self.append(cl)

    def __iter__(self):
        return iter(self.clauses)

    def __len__(self):
        return len(self.clauses)

    def copy(self):
        c = CNF()
        c.nv = self.nv
        c.clauses = [list(cl) for cl in self.clauses]
        return c
