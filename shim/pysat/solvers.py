"""A small pure-Python CDCL SAT solver exposing the PySAT Solver calls that
circuitgraph uses: Solver(bootstrap_with=...), solve(), get_model(),
add_clause(), delete().

Semantics mirrored from PySAT's CaDiCaL binding:
  * get_model() returns a list of signed ints for variables 1..N where N is
    the largest variable that occurred in any clause handed to the solver;
  * an empty clause makes the instance unsatisfiable;
  * tautological clauses only declare their variables.
"""


class _CDCL:
    def __init__(self, bootstrap_with=None, **kwargs):
        self.nvars = 0
        self.val = [0]  # 1-indexed: 0 unassigned, 1 true, -1 false
        self.level = [0]
        self.reason = [None]
        self.activity = [0.0]
        self.phase = [-1]
        self.watches = {}
        self.clauses = []
        self.trail = []
        self.trail_lim = []
        self.qhead = 0
        self.ok = True
        self.var_inc = 1.0
        self._model = None
        self._status = None
        if bootstrap_with is not None:
            clauses = getattr(bootstrap_with, "clauses", bootstrap_with)
            for cl in clauses:
                self.add_clause(cl)

    # ------------------------------------------------------------------ API
    def __enter__(self):
        return self

    def __exit__(self, *a):
        self.delete()

    def delete(self):
        self.clauses = []
        self.watches = {}

    def nof_vars(self):
        return self.nvars

    def nof_clauses(self):
        return len(self.clauses)

    def _ensure(self, v):
        while self.nvars < v:
            self.nvars += 1
            self.val.append(0)
            self.level.append(0)
            self.reason.append(None)
            self.activity.append(0.0)
            self.phase.append(-1)
            self.watches[self.nvars] = []
            self.watches[-self.nvars] = []

    def add_clause(self, clause, no_return=True):
        self._model = None
        self._status = None
        if self.trail_lim:
            self._backtrack(0)
        lits = []
        seen = set()
        taut = False
        for l in clause:
            l = int(l)
            if l == 0:
                raise ValueError("literal 0")
            self._ensure(abs(l))
            if -l in seen:
                taut = True
            if l not in seen:
                seen.add(l)
                lits.append(l)
        if taut:
            return None if no_return else self.ok
        if not self.ok:
            return None if no_return else False
        # simplify against top-level assignment
        out = []
        for l in lits:
            v = self._value(l)
            if v == 1:
                return None if no_return else True
            if v == 0:
                out.append(l)
        if not out:
            self.ok = False
        elif len(out) == 1:
            self._enqueue(out[0], None)
            if self._propagate() is not None:
                self.ok = False
        else:
            self._attach(out)
        return None if no_return else self.ok

    def append_formula(self, formula, no_return=True):
        for cl in getattr(formula, "clauses", formula):
            self.add_clause(cl)
        return None if no_return else self.ok

    def solve(self, assumptions=()):
        if assumptions:
            raise NotImplementedError("stand-in solver: assumptions unsupported")
        self._model = None
        if not self.ok:
            self._status = False
            return False
        res = self._search()
        self._status = res
        if res:
            self._model = [
                v if self.val[v] == 1 else -v for v in range(1, self.nvars + 1)
            ]
        self._backtrack(0)
        return res

    def get_model(self):
        if self._status:
            return list(self._model)
        return None

    def get_status(self):
        return self._status

    # ------------------------------------------------------------- internals
    def _value(self, l):
        v = self.val[abs(l)]
        return v if l > 0 else -v

    def _attach(self, lits):
        self.clauses.append(lits)
        self.watches[lits[0]].append(lits)
        self.watches[lits[1]].append(lits)

    def _enqueue(self, l, reason):
        v = abs(l)
        self.val[v] = 1 if l > 0 else -1
        self.level[v] = len(self.trail_lim)
        self.reason[v] = reason
        self.trail.append(l)

    def _propagate(self):
        val = self.val
        while self.qhead < len(self.trail):
            p = self.trail[self.qhead]
            self.qhead += 1
            fl = -p  # literal that became false
            ws = self.watches[fl]
            i = j = 0
            n = len(ws)
            while i < n:
                cl = ws[i]
                i += 1
                if cl[0] == fl:
                    cl[0], cl[1] = cl[1], fl
                first = cl[0]
                fv = val[abs(first)]
                if (fv if first > 0 else -fv) == 1:
                    ws[j] = cl
                    j += 1
                    continue
                found = False
                for k in range(2, len(cl)):
                    lk = cl[k]
                    vk = val[abs(lk)]
                    if (vk if lk > 0 else -vk) != -1:
                        cl[1], cl[k] = lk, fl
                        self.watches[lk].append(cl)
                        found = True
                        break
                if found:
                    continue
                ws[j] = cl
                j += 1
                if (fv if first > 0 else -fv) == -1:
                    # conflict
                    while i < n:
                        ws[j] = ws[i]
                        i += 1
                        j += 1
                    del ws[j:]
                    self.qhead = len(self.trail)
                    return cl
                self._enqueue(first, cl)
            del ws[j:]
        return None

    def _backtrack(self, lvl):
        if len(self.trail_lim) <= lvl:
            return
        start = self.trail_lim[lvl]
        for l in self.trail[start:]:
            v = abs(l)
            self.phase[v] = self.val[v]
            self.val[v] = 0
            self.reason[v] = None
        del self.trail[start:]
        del self.trail_lim[lvl:]
        self.qhead = len(self.trail)

    def _bump(self, v):
        self.activity[v] += self.var_inc
        if self.activity[v] > 1e100:
            for i in range(1, self.nvars + 1):
                self.activity[i] *= 1e-100
            self.var_inc *= 1e-100

    def _analyze(self, confl):
        seen = set()
        learnt = [None]
        counter = 0
        p = None
        idx = len(self.trail) - 1
        cur = len(self.trail_lim)
        cl = confl
        while True:
            for q in cl:
                if p is not None and q == p:
                    continue
                v = abs(q)
                if v not in seen and self.level[v] > 0:
                    seen.add(v)
                    self._bump(v)
                    if self.level[v] >= cur:
                        counter += 1
                    else:
                        learnt.append(q)
            while abs(self.trail[idx]) not in seen:
                idx -= 1
            p = self.trail[idx]
            idx -= 1
            cl = self.reason[abs(p)]
            seen.discard(abs(p))
            counter -= 1
            if counter <= 0:
                break
        learnt[0] = -p
        if len(learnt) == 1:
            bt = 0
        else:
            mi = 1
            for i in range(2, len(learnt)):
                if self.level[abs(learnt[i])] > self.level[abs(learnt[mi])]:
                    mi = i
            learnt[1], learnt[mi] = learnt[mi], learnt[1]
            bt = self.level[abs(learnt[1])]
        return learnt, bt

    def _pick(self):
        best = 0
        besta = -1.0
        val = self.val
        act = self.activity
        for v in range(1, self.nvars + 1):
            if val[v] == 0 and act[v] > besta:
                best = v
                besta = act[v]
        return best

    def _search(self):
        if self._propagate() is not None:
            self.ok = False
            return False
        while True:
            confl = self._propagate()
            if confl is not None:
                if not self.trail_lim:
                    self.ok = False
                    return False
                learnt, bt = self._analyze(confl)
                self._backtrack(bt)
                if len(learnt) == 1:
                    self._enqueue(learnt[0], None)
                else:
                    self._attach(learnt)
                    self._enqueue(learnt[0], learnt)
                self.var_inc *= 1.0 / 0.95
            else:
                v = self._pick()
                if v == 0:
                    return True
                self.trail_lim.append(len(self.trail))
                self._enqueue(v if self.phase[v] == 1 else -v, None)


class Solver(_CDCL):
    def __init__(self, name="cd", bootstrap_with=None, **kwargs):
        super().__init__(bootstrap_with=bootstrap_with, **kwargs)


class Cadical153(_CDCL):
    pass


class Cadical103(_CDCL):
    pass


class Glucose3(_CDCL):
    pass


class Glucose4(_CDCL):
    pass


class Minisat22(_CDCL):
    pass
