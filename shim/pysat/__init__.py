"""Minimal stand-in for the parts of python-sat (PySAT) that circuitgraph uses.

python-sat is not installed in this sandbox and cannot be fetched.  This
package is put on sys.path by the /verif check processes only.  It is NEVER
the oracle of a check: it only lets circuitgraph's own SAT-based code run.
It is fuzzed against brute force by `cgv.shimtest` at the start of every run.
"""
__version__ = "0.0-verif-standin"
