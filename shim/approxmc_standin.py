"""Exact projected model counter with approxmc's command line and output.

Reads the DIMACS file circuitgraph writes, honours the `c ind ... 0` sampling
set, prints `s mc N`.  If CGV_APPROXMC_CAPTURE names a directory the DIMACS
file is copied there so the check can re-count it with its own code.
"""
import os
import shutil
import sys

sys.path.insert(0, os.path.dirname(os.path.abspath(__file__)))
from pysat.solvers import Solver  # noqa: E402


def main(argv):
    path = None
    for a in argv[1:]:
        if not a.startswith("--"):
            path = a
    if path is None:
        print("usage: approxmc [options] file")
        return 2
    cap = os.environ.get("CGV_APPROXMC_CAPTURE")
    if cap:
        os.makedirs(cap, exist_ok=True)
        n = len(os.listdir(cap))
        shutil.copyfile(path, os.path.join(cap, f"{n:06d}.cnf"))
        with open(os.path.join(cap, f"{n:06d}.argv"), "w") as f:
            f.write("\n".join(argv[1:]))
    ind = None
    clauses = []
    nv = 0
    with open(path) as f:
        for line in f:
            line = line.strip()
            if not line:
                continue
            if line.startswith("c ind"):
                toks = line.split()[2:]
                ind = [int(t) for t in toks if t != "0"]
                continue
            if line.startswith("c"):
                continue
            if line.startswith("p"):
                nv = int(line.split()[2])
                continue
            if line.startswith("x"):
                print("c stand-in: xor clauses unsupported")
                return 3
            lits = [int(t) for t in line.split()]
            if lits and lits[-1] == 0:
                lits = lits[:-1]
            clauses.append(lits)
    if ind is None:
        ind = list(range(1, nv + 1))
    s = Solver(bootstrap_with=clauses)
    count = 0
    while s.solve():
        m = s.get_model()
        block = []
        for v in ind:
            val = m[v - 1] if v - 1 < len(m) else -v
            block.append(-val)
        count += 1
        if not block:
            break
        s.add_clause(block)
    # variables in the sampling set that occur in no clause are free
    print(f"c stand-in exact projected count over {len(ind)} vars")
    print(f"s mc {count}")
    return 0


if __name__ == "__main__":
    sys.exit(main(sys.argv))
