#!/bin/sh
# setup_cmd: offline; makes sure hypothesis is importable from /venv and the
# stand-ins work.  Installs nothing else and never touches /repo.
here="$(cd "$(dirname "$0")" && pwd)"
cd "$here" || exit 2
PY="${CGV_PYTHON:-/venv/bin/python}"
if ! "$PY" -c "import hypothesis" 2>/dev/null; then
  /venv/bin/pip install --no-index --find-links /opt/veriftools/wheels hypothesis || exit 2
fi
# atheris (coverage-guided stage of the thorough tier) goes into ./.deps, never into /venv
if [ ! -d "$here/.deps/atheris" ]; then
  /venv/bin/pip install -q --no-index --find-links /opt/veriftools/wheels --target "$here/.deps" atheris >/dev/null 2>&1 \
    || echo "note: atheris not installable; the thorough tier runs without its coverage-guided stage"
fi
chmod +x "$here/check" "$here/shim/bin/approxmc"
mkdir -p "$here/evidence" "$here/replays" "$here/.work"
PATH="$here/shim/bin:$PATH" PYTHONPATH="$here:$here/shim" PYTHONDONTWRITEBYTECODE=1 "$PY" -m cgv.shimtest 1 || exit 2
"$PY" -c "import circuitgraph,os,sys; p=os.path.abspath(circuitgraph.__file__); print('circuitgraph from',p)" || exit 2
echo "setup ok"
