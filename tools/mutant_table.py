#!/usr/bin/env python3
"""Print a markdown table of the seeded changes under /verif/seeded (from their meta.json)."""
import glob
import json
import os

HERE = os.path.dirname(os.path.dirname(os.path.abspath(__file__)))
rows = []
for m in sorted(glob.glob(os.path.join(HERE, "seeded", "*", "meta.json"))):
    d = json.load(open(m))
    name = os.path.basename(os.path.dirname(m))
    what = d.get("summary", "")
    det = []
    for ck, r in sorted(d.get("checks", {}).items()):
        if r["exit"] == 1 and r["violations"]:
            b = sorted({x.replace("  bucket: ", "") for x in r["buckets"]})
            nm = ck if ":" in ck else f"{ck} {d.get('tier','quick')}"
            det.append(f"{nm.replace(':', ' ')}: caught ({'; '.join(b)[:90]})")
        elif r["exit"] == 0:
            det.append(f"{ck}: missed")
        else:
            det.append(f"{ck}: harness error")
    rows.append((name, d.get("valid"), what, "<br>".join(det)))
print("| change | valid | what it breaks / what it needs | result of the checks |")
print("|---|---|---|---|")
for r in rows:
    print(f"| {r[0]} | {'yes' if r[1] else 'NO'} | {r[2]} | {r[3]} |")
