#!/bin/sh
# usage: tools/run_all.sh quick|thorough  -- run every registered check once on /repo as it is
tier="${1:-quick}"
here="$(cd "$(dirname "$0")/.." && pwd)"
cd "$here" || exit 2
[ -d .deps/atheris ] || ./setup.sh >/dev/null 2>&1
rc=0
for id in C01 C02 C03 C04 C05 C06 C07 C08 C09 C10 C11 C12 C13 C14 C15 C16 C17 C18 C19 C20; do
  ./check $id $tier 2>&1 | grep -E "$tier:|VIOLATION|KNOWN-FINDING|HARNESS|bucket" | cut -c1-400
done
