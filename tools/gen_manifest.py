#!/usr/bin/env python3
"""Regenerate MANIFEST.json from the table below (keeps it valid at all times).

usage: tools/gen_manifest.py
Properties with a module under cgv/props/ and an entry in CHECKS are claimed;
every other property is listed under not_applicable with its reason.
"""
import json
import os

HERE = os.path.dirname(os.path.dirname(os.path.abspath(__file__)))

# id -> (technique, level text, level note, design ref)
CHECKS = {}
PENDING_REASON = "check not built yet in this round (design in DESIGN.md section 3); no claim made"


def load_checks():
    p = os.path.join(HERE, "tools", "checks_table.json")
    with open(p) as f:
        return json.load(f)


def main():
    table = load_checks()
    props = []
    with open(os.path.join(HERE, "properties.jsonl")) as f:
        for line in f:
            line = line.strip()
            if line:
                props.append(json.loads(line))
    checks = []
    na = []
    for p in props:
        pid = p["id"]
        mod = os.path.join(HERE, "cgv", "props", pid.lower() + ".py")
        if pid in table and os.path.exists(mod):
            t = table[pid]
            checks.append(
                {
                    "property_id": pid,
                    "quick_cmd": f"./check {pid} quick",
                    "thorough_cmd": f"./check {pid} thorough",
                    "evidence_file": f"evidence/{pid}.json",
                    "replay_cmd_template": "./check --replay {path}",
                    "engine": "cgv",
                    "level_claimed": {
                        "category": "exploration",
                        "text": t["text"],
                        "design_ref": t.get("design_ref", "DESIGN.md section 3, " + pid),
                    },
                    "level_note": t["note"],
                    "technique": t["technique"],
                }
            )
        else:
            na.append({"property_id": pid, "reason": table.get(pid, {}).get("na_reason", PENDING_REASON)})
    manifest = {
        "version": 1,
        "setup_cmd": "./setup.sh",
        "hooks": {
            "guard": "CIRCUITGRAPH_VERIF",
            "enable": "no instrumentation hooks exist: every observation is a return value or object state; checks import /repo's working tree directly (editable install) and unset the guard",
            "baseline_off_cmd": "cd /repo && /venv/bin/python -m pytest -ra -q -p no:cacheprovider --timeout=900 --continue-on-collection-errors",
            "source_commits": [],
            "add_only": True,
        },
        "engines": [
            {
                "name": "cgv",
                "path": "cgv/",
                "serves_properties": [c["property_id"] for c in checks],
                "kind_free_text": "Hypothesis-driven property-based testing (plus exhaustive small-domain cores) against an independent bit-parallel reference simulator; 16 worker processes with distinct PYTHONHASHSEED values; JSON replay files",
            }
        ],
        "checks": checks,
        "not_applicable": na,
        "notes": "All checks: ./check <ID> quick|thorough; VERIF_SEED selects the Hypothesis seed and the hash-seed set. python-sat is not installable offline; shim/pysat is a pure-Python stand-in that only lets the library run and is never an oracle (self-tested against brute force in every run).",
    }
    with open(os.path.join(HERE, "MANIFEST.json"), "w") as f:
        json.dump(manifest, f, indent=1)
        f.write("\n")
    print(f"claimed {len(checks)}, not_applicable {len(na)}")


if __name__ == "__main__":
    main()
