#!/bin/sh
# usage: tools/run_matrix.sh [tier]   -- run every seeded change found under /tmp/wt/*/_seeded/* through tools/seeded.py
# (own property's check plus the related checks listed in tools/cross_checks.json; results land in ./seeded/<PROP>-<label>/meta.json of the tree this script runs in)
tier="${1:-quick}"
here="$(cd "$(dirname "$0")/.." && pwd)"
cd "$here" || exit 2
for d in /tmp/wt/*/_seeded/*/; do
  [ -f "$d/patch.diff" ] || continue
  label="$(basename "$d")"
  prop="$(basename "$(dirname "$(dirname "$d")")" | cut -c1-3)"
  echo "=== $prop $label ($d)"
  extra="$(python3 -c "import json,sys; print(','.join(json.load(open('tools/cross_checks.json')).get(sys.argv[1], [])))" "$prop-$label")"
  checks="$prop"; [ -n "$extra" ] && checks="$prop,$extra"
  python3 tools/seeded.py "$prop" "${d%/}" "$label" --checks "$checks" --tier "$tier" --escalate 2>&1 | grep -E "exit|valid:|DOES NOT|refusing"
done
