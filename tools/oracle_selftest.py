#!/venv/bin/python
"""Oracle self-test: perturb the *results* of library functions at run time (monkeypatching,
/repo is not touched) and make sure every check notices.  This exercises oracle clauses that
no seeded source change happened to reach and shows that no clause is vacuous.

usage: PYTHONPATH=/verif:/verif/shim tools/oracle_selftest.py [PROP ...]
Writes seeded/oracle_selftest.json and prints a table.  Not a registered check: it validates
the checks, not circuitgraph.
"""
import importlib
import json
import os
import sys
from collections import Counter
from multiprocessing import Pool

HERE = os.path.dirname(os.path.dirname(os.path.abspath(__file__)))
sys.path[:0] = [HERE, os.path.join(HERE, "shim")]
os.environ["PATH"] = os.path.join(HERE, "shim", "bin") + os.pathsep + os.environ.get("PATH", "")

# property -> list of dotted targets whose return value is perturbed
TARGETS = {
    "C01": ["sat.solve", "sat.cnf"],
    "C02": ["io.verilog_to_circuit"],
    "C03": ["io.verilog_to_circuit", "io.circuit_to_verilog"],
    "C04": ["tx.miter"],
    "C05": ["tx.limit_fanin", "tx.limit_fanout", "tx.insert_registers", "tx.acyclic_unroll"],
    "C06": ["tx.strip_blackboxes"],
    "C08": ["sat.model_count", "props.signal_probability", "sat.approx_model_count"],
    "C09": ["tx.unroll", "tx.sequential_unroll"],
    "C10": ["tx.ternary"],
    "C11": ["tx.sensitization_transform", "tx.sensitivity_transform", "props.sensitivity", "props.influence",
            "props.avg_sensitivity", "props.sensitize"],
    "C12": ["props.levelize"],
    "C13": ["logic.adder", "logic.mux", "logic.popcount", "utils.clog2", "utils.int_to_bin", "utils.bin_to_int"],
    "C14": ["parsing.fast_verilog.fast_parse_verilog_netlist"],
    "C15": ["io.bench_to_circuit", "io.circuit_to_bench"],
    "C17": ["tx.supergates"],
    "C18": ["tx.acyclic_unroll"],
    "C20": ["tx.limit_fanin", "tx.ternary", "logic.adder"],
}
# methods of Circuit (perturbed through the class)
METHODS = {
    "C06": ["add_subcircuit", "fill_blackbox"],
    "C07": ["connect", "add"],
    "C12": ["fanin", "fanout", "transitive_fanin", "transitive_fanout", "startpoints", "endpoints", "fanin_depth",
            "fanout_depth", "is_cyclic", "topo_sort", "reconvergent_fanout_nodes", "kcuts"],
    "C16": ["remove_unloaded"],
    "C19": ["copy"],
}


def perturb_circuit(c, k):
    """k-th perturbation of a Circuit (in place). Returns a description or None if not applicable."""
    g = c.graph
    nodes = sorted(g.nodes)
    gates = [n for n in nodes if g.nodes[n].get("type") in ("and", "or", "nand", "nor", "xor", "xnor", "buf", "not")]
    if k == 0 and gates:
        n = gates[len(gates) // 2]
        g.nodes[n]["output"] = not g.nodes[n].get("output", False)
        return f"flip output mark of {n}"
    if k == 1 and gates:
        n = gates[-1]
        t = g.nodes[n]["type"]
        g.nodes[n]["type"] = {"and": "or", "or": "and", "nand": "nor", "nor": "nand", "xor": "xnor", "xnor": "xor", "buf": "not", "not": "buf"}[t]
        return f"retype {n}"
    if k == 2:
        es = sorted(g.edges)
        if es:
            g.remove_edge(*es[len(es) // 2])
            return "remove an edge"
    if k == 3:
        g.add_node("zz_spurious_in", type="input", output=False)
        return "add a spurious input"
    if k == 4 and gates:
        n = gates[0]
        import networkx as nx

        nx.relabel_nodes(g, {n: n + "_zz"}, copy=False)
        return f"rename {n}"
    if k == 5 and len(nodes) >= 2:
        g.add_edge(nodes[0], nodes[-1])
        return "add an edge"
    return None


def perturb(value, k):
    import circuitgraph as cg

    if isinstance(value, cg.Circuit):
        return value, perturb_circuit(value, k)
    if isinstance(value, tuple) and value and isinstance(value[0], cg.Circuit):
        if k < 6:
            return value, perturb_circuit(value[0], k)
        m = value[1]
        if isinstance(m, dict) and m:
            key = sorted(m, key=str)[0]
            if k == 6:
                m.pop(key)
                return value, "drop a key of the returned map"
            if k == 7 and isinstance(m[key], list) and len(m[key]) >= 2:
                m[key][0], m[key][1] = m[key][1], m[key][0]
                return value, "swap two entries of a map list"
        return value, None
    if isinstance(value, tuple) and len(value) == 2 and hasattr(value[0], "clauses"):
        f = value[0]
        if k == 0 and f.clauses:
            f.clauses.pop(len(f.clauses) // 2)
            return value, "drop a clause"
        if k == 1 and f.clauses:
            cl = f.clauses[len(f.clauses) // 2]
            cl[0] = -cl[0]
            return value, "flip a literal"
        return value, None
    if isinstance(value, bool):
        return (not value, "negate") if k == 0 else (value, None)
    if isinstance(value, int):
        return (value + 1, "+1") if k == 0 else ((max(0, value - 1), "-1") if k == 1 and value > 0 else (value, None))
    if isinstance(value, float):
        return (value / 2 if value else 0.5, "halve") if k == 0 else (value, None)
    if isinstance(value, dict) and value and all(isinstance(v, (int, float)) for v in value.values()):
        key = sorted(value, key=str)[0]
        if k == 0:
            value[key] = value[key] + 1 if isinstance(value[key], int) else value[key] / 2 + 0.125
            return value, "change one value"
        if k == 1:
            value.pop(key)
            return value, "drop one key"
        return value, None
    if isinstance(value, dict) and value and all(isinstance(v, bool) for v in value.values()):
        key = sorted(value, key=str)[-1]
        if k == 0:
            value[key] = not value[key]
            return value, "flip one value of the valuation"
        if k == 1:
            value.pop(key)
            return value, "drop one key of the valuation"
        return value, None
    if isinstance(value, set):
        if k == 0 and value:
            value.discard(sorted(value, key=str)[0])
            return value, "drop an element"
        if k == 1:
            value.add("zz_extra")
            return value, "add an element"
        return value, None
    if isinstance(value, (list, tuple)) and value and not isinstance(value[0], cg.Circuit):
        lst = list(value)
        if k == 0:
            return type(value)(lst[:-1]), "drop last element"
        if k == 1 and len(lst) >= 2:
            lst[0], lst[-1] = lst[-1], lst[0]
            return type(value)(lst), "swap first and last"
        if k == 2 and isinstance(lst[0], bool):
            lst[0] = not lst[0]
            return type(value)(lst), "flip first bit"
        return value, None
    if isinstance(value, list) and value and isinstance(value[0], cg.Circuit):
        if k == 0:
            return value[::-1], "reverse the list"
        if k == 1:
            return value[:-1], "drop the last circuit"
        if k == 2:
            return value, perturb_circuit(value[0], 1)
        return value, None
    if isinstance(value, str):
        if k == 0 and " and " in value:
            return value.replace(" and ", " or ", 1), "and -> or in the text"
        if k == 1 and "OUTPUT(" in value:
            i = value.index("OUTPUT(")
            j = value.index("\n", i)
            return value[:i] + value[j + 1:], "drop an OUTPUT line"
        if k == 2 and "output " in value:
            i = value.index("  output ")
            j = value.index("\n", i)
            return value[:i] + value[j + 1:], "drop an output declaration"
        if k == 3 and "nand" in value.lower():
            return value.replace("nand", "and", 1).replace("NAND", "AND", 1), "nand -> and in the text"
        return value, None
    return value, None


def run_one(job):
    prop, kind, target, k = job
    import circuitgraph as cg
    from hypothesis import HealthCheck, given, seed, settings

    from cgv import harness

    mod = importlib.import_module(f"cgv.props.{prop.lower()}")
    outdir = os.path.join(HERE, ".work", "selftest")
    os.makedirs(outdir, exist_ok=True)
    ctx = harness.Ctx(prop, "quick", 1, os.getpid() % 1000, 1, "0", outdir, {})
    ctx.mod = mod
    applied = Counter()
    every = 3  # perturb every 3rd call so that set-up calls mostly stay intact

    if kind == "func":
        parts = target.split(".")
        owner = cg
        for p in parts[:-1]:
            owner = getattr(owner, p)
        orig = getattr(owner, parts[-1])
    else:
        owner = cg.Circuit
        orig = getattr(owner, target)
    calls = [0]

    def wrapper(*a, **kw):
        r = orig(*a, **kw)
        if kind == "method" and target in ("connect", "add", "add_subcircuit", "fill_blackbox", "remove_unloaded"):
            # perturb the circuit the method worked on
            calls[0] += 1
            if calls[0] % every == 0:
                d = perturb_circuit(a[0], k)
                if d:
                    applied[d] += 1
            return r
        if kind == "method" and target in ("reconvergent_fanout_nodes", "topo_sort"):
            r = list(r)
        calls[0] += 1
        if calls[0] % every:
            return r
        r2, d = perturb(r, k)
        if d:
            applied[d] += 1
            return r2
        return r

    setattr(owner, parts[-1] if kind == "func" else target, wrapper)
    buckets = Counter()
    errors = Counter()
    try:
        def judge(case):
            try:
                mod.check(case, ctx)
            except harness.Violation as v:
                buckets[v.bucket.split("|Key")[0][:60]] += 1
            except Exception as e:  # noqa: BLE001
                from cgv import refsim

                if isinstance(e, refsim.MalformedCircuit):
                    buckets["malformed_result"] += 1
                else:
                    errors[type(e).__name__] += 1

        n = 0
        for case in mod.core(ctx):
            judge(case)
            n += 1
            if n >= 150:
                break

        from hypothesis import Phase

        @seed(7)
        @settings(max_examples=120, database=None, deadline=None, suppress_health_check=list(HealthCheck),
                  phases=[Phase.generate])
        @given(mod.strategy(ctx))
        def t(case):
            judge(case)

        try:
            t()
        except Exception as e:  # noqa: BLE001
            errors["hypothesis:" + type(e).__name__] += 1
    finally:
        setattr(owner, parts[-1] if kind == "func" else target, orig)
    return {"prop": prop, "target": target, "k": k, "applied": dict(applied), "buckets": dict(buckets.most_common(6)),
            "errors": dict(errors)}


def main():
    props = [p.upper() for p in sys.argv[1:]] or sorted(set(TARGETS) | set(METHODS))
    jobs = []
    for p in props:
        for t in TARGETS.get(p, []):
            for k in range(8):
                jobs.append((p, "func", t, k))
        for t in METHODS.get(p, []):
            for k in range(6):
                jobs.append((p, "method", t, k))
    with Pool(int(os.environ.get("CGV_WORKERS", "8"))) as pool:
        res = pool.map(run_one, jobs, chunksize=1)
    res = [r for r in res if r["applied"]]
    with open(os.path.join(HERE, "seeded", "oracle_selftest.json"), "w") as f:
        json.dump(res, f, indent=1)
    missed = [r for r in res if not r["buckets"]]
    print(f"{len(res)} applicable perturbations, {len(res) - len(missed)} noticed, {len(missed)} not noticed")
    for r in res:
        mark = "ok  " if r["buckets"] else "MISS"
        print(mark, r["prop"], r["target"], list(r["applied"])[:1], "->", list(r["buckets"])[:3], r["errors"] or "")
    return 0


if __name__ == "__main__":
    sys.exit(main())
