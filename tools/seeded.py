#!/usr/bin/env python3
"""Validate a seeded change and run the checks against it.

usage: tools/seeded.py <PROP> <dir with patch.diff demo.py notes.md> <label> [--checks C01,C05] [--tier quick]
Steps: (1) in a scratch worktree of /repo HEAD: demo passes on the clean tree, patch applies, the
upstream test-suite result is unchanged, demo fails with the patch; (2) apply the patch to /repo, run the
given checks, undo the patch; (3) store everything under /verif/seeded/<PROP>-<label>/.
"""
import json
import os
import shutil
import subprocess
import sys
import time

VERIF = os.path.dirname(os.path.dirname(os.path.abspath(__file__)))
PY = "/venv/bin/python"


def sh(cmd, cwd=None, env=None, timeout=3600):
    e = dict(os.environ)
    if env:
        e.update(env)
    p = subprocess.run(cmd, shell=True, cwd=cwd, env=e, capture_output=True, text=True, timeout=timeout)
    return p.returncode, p.stdout + p.stderr


def tests(wt):
    rc, out = sh(f"PYTHONPATH={wt} {PY} -m pytest -q -p no:cacheprovider -rA tests 2>&1 | grep -E '^(PASSED|FAILED|ERROR)' | sort", cwd=wt)
    return out


def main():
    prop, src, label = sys.argv[1:4]
    # changes that only show with inputs the checks deliberately do not generate (DESIGN.md section 6,
    # "changes that no registered check reaches"): the thorough tier draws from the same domain, so
    # escalating to it would only burn time
    no_escalate = {"C04-D", "C08-F", "C18-F", "C04-G", "C06-H", "C11-G", "C12-G", "C12-H", "C13-I", "C13-J", "C13-L", "C01-L", "C06-L"}
    if f"{prop}-{label}" in no_escalate and "--escalate" in sys.argv:
        sys.argv.remove("--escalate")
    checks = [prop]
    tier = "quick"
    if "--checks" in sys.argv:
        checks = sys.argv[sys.argv.index("--checks") + 1].split(",")
    if "--tier" in sys.argv:
        tier = sys.argv[sys.argv.index("--tier") + 1]
    dest = os.path.join(VERIF, "seeded", f"{prop}-{label}")
    wt = f"/tmp/wt/_val_{prop}_{label}"
    meta = {"property": prop, "label": label, "source_dir": src, "validated_at_repo_head": None, "steps": {}}
    sh(f"git -C /repo worktree remove --force {wt}")
    rc, out = sh(f"git -C /repo worktree add --detach {wt} HEAD")
    if rc:
        print(out)
        return 2
    try:
        meta["validated_at_repo_head"] = sh("git -C /repo log -1 --format=%h")[1].strip()
        demo_dir = os.path.join(wt, "_demo")
        shutil.copytree(src, demo_dir)
        # demos may hard-code the path of the worktree they were written in
        origin = os.path.dirname(os.path.dirname(os.path.abspath(src)))
        for root, _, files in os.walk(demo_dir):
            for fn in files:
                if fn.endswith((".py", ".sh")):
                    fp = os.path.join(root, fn)
                    txt = open(fp).read()
                    if origin in txt:
                        open(fp, "w").write(txt.replace(origin, wt))
        env = {"PYTHONPATH": wt}
        hs = None
        notes = open(os.path.join(src, "notes.md")).read() if os.path.exists(os.path.join(src, "notes.md")) else ""
        base_tests = tests(wt)
        rc0, out0 = sh(f"{PY} demo.py", cwd=demo_dir, env=env, timeout=1800)
        meta["steps"]["demo_clean_exit"] = rc0
        rca, outa = sh(f"git -C {wt} apply {os.path.join(src, 'patch.diff')}")
        meta["steps"]["patch_applies"] = rca == 0
        if rca:
            print("PATCH DOES NOT APPLY on current HEAD:\n", outa)
            meta["steps"]["apply_error"] = outa[-800:]
        else:
            mut_tests = tests(wt)
            meta["steps"]["tests_unchanged"] = mut_tests == base_tests
            meta["steps"]["tests_passed"] = mut_tests.count("PASSED")
            rc1, out1 = sh(f"{PY} demo.py", cwd=demo_dir, env=env, timeout=1800)
            meta["steps"]["demo_patched_exit"] = rc1
            meta["steps"]["demo_patched_tail"] = out1[-600:]
    finally:
        sh(f"git -C /repo worktree remove --force {wt}")
    ok = meta["steps"].get("patch_applies") and meta["steps"].get("tests_unchanged") and meta["steps"].get("demo_clean_exit") == 0 and meta["steps"].get("demo_patched_exit", 0) != 0
    meta["valid"] = bool(ok)
    print(json.dumps(meta["steps"], indent=1)[:1500])
    results = {}
    if ok:
        wt2 = f"/tmp/wt/_run_{prop}_{label}"
        sh(f"git -C /repo worktree remove --force {wt2}")
        sh(f"git -C /repo worktree add --detach {wt2} HEAD")
        rc, out = sh(f"git -C {wt2} apply {os.path.join(src, 'patch.diff')}")
        rdir = os.path.join(dest, "replays")
        edir = os.path.join(dest, "evidence_with_patch")
        os.makedirs(rdir, exist_ok=True)
        os.makedirs(edir, exist_ok=True)
        try:
            for ck in checks:
                t0 = time.time()
                rc, out = sh(f"./check {ck} {tier}", cwd=VERIF, timeout=7200,
                             env={"CGV_REPO": wt2, "CGV_REPLAY_DIR": rdir, "CGV_EVIDENCE_DIR": edir})
                viol = [ln for ln in out.splitlines() if ln.startswith("VIOLATION")]
                detail = [ln for ln in out.splitlines() if ln.startswith("  bucket:")]
                harness = [ln for ln in out.splitlines() if ln.startswith("HARNESS-ERROR")]
                results[ck] = {"exit": rc, "violations": viol, "buckets": detail, "harness_error": harness, "wall_s": round(time.time() - t0, 1)}
                print(ck, tier, "exit", rc, viol[:3], detail[:3], harness[:1])
        finally:
            sh(f"git -C /repo worktree remove --force {wt2}")
            shutil.rmtree(edir, ignore_errors=True)
    if ok and "--escalate" in sys.argv and tier == "quick" and not any(v["exit"] == 1 and v["violations"] for v in results.values()):
        # missed by the quick tier: try the thorough tier of the property's own check
        wt2 = f"/tmp/wt/_run_{prop}_{label}"
        sh(f"git -C /repo worktree remove --force {wt2}")
        sh(f"git -C /repo worktree add --detach {wt2} HEAD")
        sh(f"git -C {wt2} apply {os.path.join(src, 'patch.diff')}")
        rdir = os.path.join(dest, "replays")
        edir = os.path.join(dest, "evidence_with_patch")
        os.makedirs(rdir, exist_ok=True)
        try:
            t0 = time.time()
            rc, out = sh(f"./check {prop} thorough", cwd=VERIF, timeout=6 * 3600,
                         env={"CGV_REPO": wt2, "CGV_REPLAY_DIR": rdir, "CGV_EVIDENCE_DIR": edir})
            viol = [ln for ln in out.splitlines() if ln.startswith("VIOLATION")]
            detail = [ln for ln in out.splitlines() if ln.startswith("  bucket:")]
            harness = [ln for ln in out.splitlines() if ln.startswith("HARNESS-ERROR")]
            results[prop + ":thorough"] = {"exit": rc, "violations": viol, "buckets": detail, "harness_error": harness, "wall_s": round(time.time() - t0, 1)}
            print(prop, "thorough", "exit", rc, viol[:3], detail[:3], harness[:1])
        finally:
            sh(f"git -C /repo worktree remove --force {wt2}")
            shutil.rmtree(edir, ignore_errors=True)
    os.makedirs(dest, exist_ok=True)
    for f in os.listdir(src):
        s = os.path.join(src, f)
        if os.path.isfile(s):
            shutil.copy(s, os.path.join(dest, f))
        elif os.path.isdir(s) and f != "__pycache__":
            shutil.copytree(s, os.path.join(dest, f), dirs_exist_ok=True, ignore=shutil.ignore_patterns("__pycache__"))
    try:
        with open(os.path.join(VERIF, "tools", "seeded_summaries.json")) as f:
            meta["summary"] = json.load(f).get(f"{prop}-{label}", "")
    except Exception:  # noqa: BLE001
        meta["summary"] = ""
    meta["checks"] = results
    meta["tier"] = tier
    meta["detected_by"] = [k for k, v in results.items() if v["exit"] == 1 and v["violations"]]
    with open(os.path.join(dest, "meta.json"), "w") as f:
        json.dump(meta, f, indent=1)
    print("valid:", meta["valid"], "detected_by:", meta["detected_by"])
    return 0


if __name__ == "__main__":
    sys.exit(main())
