"""JSON-able circuit descriptions <-> circuitgraph objects.

A circuit spec is
  {"name": str,
   "nodes": [[name, type, [fanin names], is_output], ...],
   "bbtypes": [[type_name, [input pins], [output pins]], ...],
   "insts": [[inst_name, bbtype_index, {pin: net}], ...]}
Circuits are built through the public API the way users build them: every
node is added, then every connection is made, then blackboxes are added with
their connection maps.  A bb output pin may only be connected to a `buf` node
that has no other fan-in.
"""
import circuitgraph as cg


class SpecError(Exception):
    """The generator produced a spec the public API rejects (harness bug)."""


def build(spec, with_bbs=False):
    c = cg.Circuit(name=spec.get("name", "c"))
    try:
        for n, t, fanin, out in spec["nodes"]:
            c.add(n, t, output=bool(out))
        for n, t, fanin, out in spec["nodes"]:
            for f in fanin:
                c.connect(f, n)
        bbs = [
            cg.BlackBox(tn, list(ins), list(outs))
            for tn, ins, outs in spec.get("bbtypes", [])
        ]
        for iname, ti, conns in spec.get("insts", []):
            if spec.get("distinct_bb"):
                # every instance gets its own (equal) BlackBox object, as a netlist reader might do
                tn, ins, outs = spec["bbtypes"][ti]
                c.add_blackbox(cg.BlackBox(tn, list(ins), list(outs)), iname, dict(conns))
            else:
                c.add_blackbox(bbs[ti], iname, dict(conns))
    except Exception as e:  # noqa: BLE001
        raise SpecError(f"cannot build spec: {type(e).__name__}: {e}") from e
    if spec.get("raw_attrs"):
        for n in c.graph.nodes:
            if not c.graph.nodes[n].get("output"):
                c.graph.nodes[n].pop("output", None)
    if with_bbs:
        return c, bbs
    return c


def spec_of(c):
    """Describe an existing Circuit as a spec (for samples / debugging)."""
    g = c.graph
    types = {}
    bbtypes = []
    for b in c.blackboxes.values():
        if id(b) not in types:
            types[id(b)] = len(bbtypes)
            bbtypes.append([b.name, sorted(b.inputs()), sorted(b.outputs())])
    nodes = []
    for n in sorted(g.nodes):
        t = g.nodes[n].get("type")
        if t in ("bb_input", "bb_output"):
            continue
        fi = sorted(p for p in g.pred[n] if g.nodes[p].get("type") != "bb_output")
        nodes.append([n, t, fi, bool(g.nodes[n].get("output", False))])
    insts = []
    for iname, b in sorted(c.blackboxes.items()):
        conns = {}
        for p in sorted(b.inputs()):
            ps = list(g.pred.get(f"{iname}.{p}", ()))
            if ps:
                conns[p] = ps[0]
        for p in sorted(b.outputs()):
            ss = list(g.succ.get(f"{iname}.{p}", ()))
            if ss:
                conns[p] = ss[0]
        insts.append([iname, types[id(b)], conns])
    return {"name": c.name, "nodes": nodes, "bbtypes": bbtypes, "insts": insts}


def spec_stats(spec):
    """Cheap structural facts used by non-triviality rules."""
    nodes = spec["nodes"]
    types = [t for _, t, _, _ in nodes]
    gates = [x for x in nodes if x[1] in cg.primitive_gates]
    return {
        "n_nodes": len(nodes),
        "n_inputs": sum(1 for t in types if t == "input"),
        "n_gates": len(gates),
        "gate_types": sorted({x[1] for x in gates}),
        "max_fanin": max([len(x[2]) for x in nodes] + [0]),
        "has_const": any(t in ("0", "1") for t in types),
        "has_x": any(t == "x" for t in types),
        "has_bb": bool(spec.get("insts")),
        "one_input_nary": any(
            x[1] in ("and", "nand", "or", "nor", "xor", "xnor") and len(x[2]) == 1
            for x in nodes
        ),
        "parity3": any(x[1] in ("xor", "xnor") and len(x[2]) >= 3 for x in nodes),
        "n_outputs": sum(1 for x in nodes if x[3]),
    }
