"""Property-based verification machinery for circuitgraph (see /verif/DESIGN.md)."""
