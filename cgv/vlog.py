"""Structural-Verilog netlist ASTs: renderer and reference evaluator.

A module description (JSON-able):
  {"name": str,
   "ports": [net, ...]                      port list, in order
   "items": [item, ...]                     declarations and statements in file order
   "bbtypes": [[type, [in pins], [out pins]], ...]}
item:
  {"k": "input"|"output"|"wire", "nets": [..]}
  {"k": "gate", "t": gate type, "insts": [{"name": n, "out": net, "ins": [expr, ...]}, ...]}
  {"k": "assign", "assigns": [{"lhs": net, "rhs": expr}, ...]}
  {"k": "bb", "t": bbtype index, "insts": [{"name": n, "conns": [[pin, expr or None], ...]}]}
      (a pin absent from conns is omitted; expr None renders `.p()`)
  {"k": "comment", "text": str, "style": "line"|"block"}
expr:
  ["id", net] | ["const", 0|1, spelling] | ["not", "~"|"!", e] | ["bin", op, a, b] with op in & | ^ ~^ ^~
  | ["tern", c, a, b] | ["par", e]
The evaluator implements Verilog semantics on the AST directly; precedence
never comes from re-parsing text: the renderer emits parentheses exactly where
the Verilog precedence table needs them (unary > & > ^ ~^ > | > ?:), plus the
explicit ["par", e] nodes.
"""

PREC = {"tern": 0, "|": 1, "^": 2, "~^": 2, "^~": 2, "&": 3, "not": 4, "atom": 5}
KEYWORDS = {"module", "endmodule", "input", "output", "wire", "assign", "buf", "and", "or", "xor", "not",
            "nand", "nor", "xnor", "inout", "reg"}


def eprec(e):
    k = e[0]
    if k in ("id", "const", "par"):
        return PREC["atom"]
    if k == "not":
        return PREC["not"]
    if k == "bin":
        return PREC[e[1]]
    return PREC["tern"]


def expr_tokens(e, grammar_limits=True):
    """Token list for an expression with minimal parentheses.

    grammar_limits: the library's grammar only allows a primary after a unary
    operator and `or`-level operands in a ternary; parentheses are added to
    respect that (they never change the meaning)."""
    k = e[0]
    if k == "id":
        return [("id", e[1])]
    if k == "const":
        return [("sym", e[2])]
    if k == "par":
        return [("sym", "(")] + expr_tokens(e[1]) + [("sym", ")")]
    if k == "not":
        inner = expr_tokens(e[2])
        if eprec(e[2]) < PREC["atom"]:
            inner = [("sym", "(")] + inner + [("sym", ")")]
        return [("sym", e[1])] + inner
    if k == "bin":
        op = e[1]
        p = PREC[op]
        lt = expr_tokens(e[2])
        if eprec(e[2]) < p:
            lt = [("sym", "(")] + lt + [("sym", ")")]
        rt = expr_tokens(e[3])
        if eprec(e[3]) <= p:  # left-associative: same level on the right needs parentheses
            rt = [("sym", "(")] + rt + [("sym", ")")]
        return lt + [("sym", op)] + rt
    if k == "tern":
        parts = []
        for sub in (e[1], e[2], e[3]):
            t = expr_tokens(sub)
            if eprec(sub) <= PREC["tern"]:
                t = [("sym", "(")] + t + [("sym", ")")]
            parts.append(t)
        return parts[0] + [("sym", "?")] + parts[1] + [("sym", ":")] + parts[2]
    raise ValueError(k)


def eval_expr(e, env, full):
    k = e[0]
    if k == "id":
        return env(e[1])
    if k == "const":
        return full if e[1] else 0
    if k == "par":
        return eval_expr(e[1], env, full)
    if k == "not":
        return eval_expr(e[2], env, full) ^ full
    if k == "bin":
        a = eval_expr(e[2], env, full)
        b = eval_expr(e[3], env, full)
        op = e[1]
        if op == "&":
            return a & b
        if op == "|":
            return a | b
        if op == "^":
            return a ^ b
        return (a ^ b) ^ full
    if k == "tern":
        c = eval_expr(e[1], env, full)
        a = eval_expr(e[2], env, full)
        b = eval_expr(e[3], env, full)
        return (c & a) | ((c ^ full) & b)
    raise ValueError(k)


def expr_ids(e, acc=None):
    if acc is None:
        acc = []
    k = e[0]
    if k == "id":
        acc.append(e[1])
    elif k == "par":
        expr_ids(e[1], acc)
    elif k == "not":
        expr_ids(e[2], acc)
    elif k == "bin":
        expr_ids(e[2], acc)
        expr_ids(e[3], acc)
    elif k == "tern":
        for s in e[1:]:
            expr_ids(s, acc)
    return acc


GATE_FN = {
    "and": lambda xs, f: _red(xs, f, "and"), "nand": lambda xs, f: _red(xs, f, "and") ^ f,
    "or": lambda xs, f: _red(xs, f, "or"), "nor": lambda xs, f: _red(xs, f, "or") ^ f,
    "xor": lambda xs, f: _red(xs, f, "xor"), "xnor": lambda xs, f: _red(xs, f, "xor") ^ f,
    "buf": lambda xs, f: xs[0], "not": lambda xs, f: xs[0] ^ f,
}


def _red(xs, full, op):
    if op == "and":
        r = full
        for x in xs:
            r &= x
    elif op == "or":
        r = 0
        for x in xs:
            r |= x
    else:
        r = 0
        for x in xs:
            r ^= x
    return r


class Semantics:
    """Reference meaning of a module: which nets exist, what drives them."""

    def __init__(self, mod):
        self.mod = mod
        self.inputs = []
        self.outputs = []
        self.wires = []
        self.drivers = {}  # net -> ("gate", t, [expr]) | ("assign", expr) | ("bbout", inst, pin)
        self.bbinsts = {}  # inst -> (type index, {pin: expr|None})
        for it in mod["items"]:
            k = it["k"]
            if k == "input":
                self.inputs += it["nets"]
            elif k == "output":
                self.outputs += it["nets"]
            elif k == "wire":
                self.wires += it["nets"]
            elif k == "gate":
                for ins in it["insts"]:
                    self._drive(ins["out"], ("gate", it["t"], ins["ins"]))
            elif k == "assign":
                for a in it["assigns"]:
                    self._drive(a["lhs"], ("assign", a["rhs"]))
            elif k == "bb":
                tname, pins_in, pins_out = mod["bbtypes"][it["t"]]
                for ins in it["insts"]:
                    conns = {p: e for p, e in ins["conns"]}
                    self.bbinsts[ins["name"]] = (it["t"], conns)
                    for p in pins_out:
                        e = conns.get(p)
                        if e is not None:
                            if e[0] != "id":
                                raise ValueError("blackbox output pin must connect to a net")
                            self._drive(e[1], ("bbout", ins["name"], p))

    def _drive(self, net, d):
        if net in self.drivers:
            raise ValueError(f"net {net} has two drivers")
        self.drivers[net] = d

    def free(self):
        """Free signals: inputs, blackbox output pins (connected or not matter only when connected)."""
        out = list(self.inputs)
        for inst, (ti, conns) in self.bbinsts.items():
            for p in self.mod["bbtypes"][ti][2]:
                out.append(f"{inst}.{p}")
        return out

    def all_nets(self):
        nets = list(dict.fromkeys(self.inputs + self.outputs + self.wires + list(self.drivers)))
        return nets

    def evaluate(self, asg, W):
        """asg: table per free signal. Returns (net values, bb input pin values)."""
        full = (1 << W) - 1
        memo = {}
        busy = set()

        def net(n):
            if n in memo:
                return memo[n]
            if n in busy:
                raise ValueError("combinational loop in generated netlist")
            busy.add(n)
            if n in self.inputs:
                v = asg[n]
            else:
                d = self.drivers.get(n)
                if d is None:
                    raise KeyError(f"undriven net {n}")
                if d[0] == "gate":
                    v = GATE_FN[d[1]]([eval_expr(e, net, full) for e in d[2]], full)
                elif d[0] == "assign":
                    v = eval_expr(d[1], net, full)
                else:
                    v = asg[f"{d[1]}.{d[2]}"]
            busy.discard(n)
            memo[n] = v & full
            return memo[n]

        vals = {}
        for n in self.all_nets():
            if n in self.inputs or n in self.drivers:
                vals[n] = net(n)
        pins = {}
        for inst, (ti, conns) in self.bbinsts.items():
            for p in self.mod["bbtypes"][ti][1]:
                e = conns.get(p)
                if e is not None:
                    pins[f"{inst}.{p}"] = eval_expr(e, net, full) & full
        return vals, pins


# ------------------------------------------------------------------ renderer
WS = ["", " ", "  ", "\t", "\n", " \n  ", "\n\n", " \t "]


def item_tokens(mod, it):
    k = it["k"]
    t = []
    if k in ("input", "output", "wire"):
        t.append(("kw", k))
        for i, n in enumerate(it["nets"]):
            if i:
                t.append(("sym", ","))
            t.append(("id", n))
        t.append(("sym", ";"))
    elif k == "gate":
        t.append(("kw", it["t"]))
        for j, ins in enumerate(it["insts"]):
            if j:
                t.append(("sym", ","))
            t.append(("id", ins["name"]))
            t.append(("sym", "("))
            t.append(("id", ins["out"]))
            for e in ins["ins"]:
                t.append(("sym", ","))
                t += expr_tokens(e)
            t.append(("sym", ")"))
        t.append(("sym", ";"))
    elif k == "assign":
        t.append(("kw", "assign"))
        for j, a in enumerate(it["assigns"]):
            if j:
                t.append(("sym", ","))
            t.append(("id", a["lhs"]))
            t.append(("sym", "="))
            t += expr_tokens(a["rhs"])
        t.append(("sym", ";"))
    elif k == "bb":
        t.append(("kw", mod["bbtypes"][it["t"]][0]))
        for j, ins in enumerate(it["insts"]):
            if j:
                t.append(("sym", ","))
            t.append(("id", ins["name"]))
            t.append(("sym", "("))
            for q, (p, e) in enumerate(ins["conns"]):
                if q:
                    t.append(("sym", ","))
                t.append(("sym", "."))
                t.append(("pin", p))
                t.append(("sym", "("))
                if e is not None:
                    t += expr_tokens(e)
                t.append(("sym", ")"))
            t.append(("sym", ")"))
        t.append(("sym", ";"))
    elif k == "comment":
        t.append(("comment", it))
    return t


def _wordlike(tok):
    kind, s = tok
    if kind == "comment":
        return False
    return kind in ("kw", "id", "pin") or s[0].isalnum() or s[0] in "_\\'"


def render(mod, ws=None, glue_close=True):
    """Render to text. ws: list of ints choosing the whitespace in each gap
    (None -> single spaces / newlines, the writer-like layout)."""
    toks = [("kw", "module"), ("id", mod["name"]), ("sym", "(")]
    seen_port = False
    for p in mod["ports"]:
        if isinstance(p, dict):
            toks.append(("comment", p))
        else:
            if seen_port:
                toks.append(("sym", ","))
            toks.append(("id", p))
            seen_port = True
    toks += [("sym", ")"), ("sym", ";")]
    for it in mod["items"]:
        toks += item_tokens(mod, it)
        toks.append(("nl", ""))
    toks.append(("kw", "endmodule"))
    out = []
    gi = 0
    prev = None
    in_header = True
    for tok in toks:
        kind, s = tok
        if kind == "nl":
            if ws is None:
                out.append("\n")
            prev = ("sym", ";")
            continue
        if kind == "comment":
            text = s["text"]
            if s["style"] == "line":
                frag = " //" + text + "\n"
            else:
                frag = " /*" + text + "*/ "
            out.append(frag)
            prev = ("sym", ";")
            continue
        if prev is not None:
            if ws is None:
                gap = " " if not (s in (",", ";", ")", "(") or prev[1] in ("(", ".")) else ""
                if prev[1] in (",",):
                    gap = " "
            else:
                gap = WS[ws[gi % len(ws)] % len(WS)]
                gi += 1
            need_sep = (_wordlike(prev) and _wordlike(tok)) or (prev[0] == "id" and prev[1].startswith("\\"))
            # operator pairs that would merge into another token
            if prev[0] == "sym" and kind == "sym" and (prev[1] + s) in ("~^", "^~", "//", "/*", "*/", "~~", "!!"):
                need_sep = True
            if prev[0] == "sym" and prev[1] in ("~", "^") and kind == "sym" and s in ("^", "~"):
                need_sep = True
            if prev[1] == ")" and s == ";" and (glue_close in (True, "all") or (glue_close == "header" and in_header)):
                gap = ""
            if need_sep and gap == "":
                gap = " "
            out.append(gap)
        out.append(s)
        if s == ";":
            in_header = False
        prev = tok
    out.append("\n")
    return "".join(out)
