"""Self-test of the pysat / approxmc stand-ins against brute force.

The stand-ins are never an oracle; this only guards against a broken
stand-in making the library misbehave.  Failure -> exit 2 (harness error).
"""
import itertools
import os
import random
import subprocess
import sys
import tempfile

from pysat.formula import CNF, IDPool
from pysat.solvers import Cadical153


def brute(nv, clauses):
    sols = []
    for bits in itertools.product((False, True), repeat=nv):
        ok = True
        for cl in clauses:
            if not any((bits[abs(l) - 1] if l > 0 else not bits[abs(l) - 1]) for l in cl):
                ok = False
                break
        if ok:
            sols.append(bits)
    return sols


def main(seed):
    rnd = random.Random(1000 + seed)
    n_sat = n_unsat = n_enum = 0
    for it in range(700):
        nv = rnd.randint(1, 10)
        ncl = rnd.randint(0, int(nv * rnd.choice([1.5, 3, 4.3, 6])))
        clauses = []
        for _ in range(ncl):
            k = rnd.choice([1, 2, 2, 3, 3, 3, 4])
            cl = [rnd.choice([-1, 1]) * rnd.randint(1, nv) for _ in range(k)]
            clauses.append(cl)
        f = CNF()
        for cl in clauses:
            f.append(cl)
        used = max([abs(l) for cl in clauses for l in cl] + [0])
        assert f.nv == used, "CNF.nv"
        s = Cadical153(bootstrap_with=f)
        sols = brute(used, clauses) if used else [()]
        r = s.solve()
        if bool(sols) != bool(r):
            print("MISMATCH sat/unsat", clauses)
            return 2
        if r:
            n_sat += 1
            m = s.get_model()
            if len(m) != used:
                print("model length", len(m), used, clauses)
                return 2
            bits = tuple(x > 0 for x in m)
            if any(abs(x) != i + 1 for i, x in enumerate(m)):
                print("model numbering", m)
                return 2
            if bits not in sols:
                print("model does not satisfy", clauses, m)
                return 2
            # incremental enumeration projected on a subset
            if it % 3 == 0 and used:
                proj = sorted(rnd.sample(range(1, used + 1), rnd.randint(1, used)))
                want = len({tuple(b[v - 1] for v in proj) for b in sols})
                cnt = 0
                while s.solve():
                    m = s.get_model()
                    b = tuple(x > 0 for x in m)
                    if b not in sols:
                        print("enumerated non-model")
                        return 2
                    s.add_clause([-m[v - 1] for v in proj])
                    cnt += 1
                    if cnt > want:
                        break
                if cnt != want:
                    print("projected count", cnt, want, clauses, proj)
                    return 2
                n_enum += 1
        else:
            n_unsat += 1
            if s.get_model() is not None:
                print("model after unsat")
                return 2
    # empty clause
    s = Cadical153(bootstrap_with=[[1, 2]])
    s.add_clause([])
    if s.solve():
        print("empty clause not unsat")
        return 2
    # tautology declares variables
    s = Cadical153(bootstrap_with=[[3, -3], [1]])
    if not s.solve() or len(s.get_model()) != 3:
        print("tautology handling")
        return 2
    p = IDPool()
    if [p.id("a"), p.id("b"), p.id("a"), p.obj(2)] != [1, 2, 1, "b"]:
        print("IDPool")
        return 2
    # approxmc stand-in
    with tempfile.TemporaryDirectory() as d:
        fn = os.path.join(d, "t.cnf")
        with open(fn, "w") as f:
            f.write("c ind 1 2 0\np cnf 3 2\n1 2 3 0\n-1 -2 0\n")
        out = subprocess.run(["approxmc", "--seed=3", fn], capture_output=True, text=True)
        if "s mc 3" not in out.stdout:
            print("approxmc stand-in:", out.stdout, out.stderr)
            return 2
    print(f"shim self-test ok: {n_sat} sat, {n_unsat} unsat, {n_enum} projected enumerations")
    return 0


if __name__ == "__main__":
    sys.exit(main(int(sys.argv[1]) if len(sys.argv) > 1 else 1))
