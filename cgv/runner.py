"""Parent process: ./check <ID> [quick|thorough]  |  ./check --replay <file>

Exit codes: 0 property held on everything explored (known findings are
reported as KNOWN-FINDING lines), 1 violation (VIOLATION line printed),
2 harness error (never a VIOLATION).
"""
import glob
import json
import os
import shutil
import subprocess
import sys
import time

VERIF = os.path.dirname(os.path.dirname(os.path.abspath(__file__)))
PY = os.environ.get("CGV_PYTHON", "/venv/bin/python")
REPO = os.environ.get("CGV_REPO", "/repo")


def child_env(hashseed):
    env = dict(os.environ)
    pp = [VERIF, os.path.join(VERIF, "shim")]
    if os.environ.get("CGV_REPO"):
        pp.insert(0, os.environ["CGV_REPO"])
    env["PYTHONPATH"] = os.pathsep.join(pp)
    env["PATH"] = os.path.join(VERIF, "shim", "bin") + os.pathsep + env.get("PATH", "")
    env["PYTHONHASHSEED"] = str(hashseed)
    env["PYTHONDONTWRITEBYTECODE"] = "1"
    env["CGV_PYTHON"] = PY
    env.pop("CIRCUITGRAPH_VERIF", None)
    return env


def load_known():
    with open(os.path.join(VERIF, "known_findings.json")) as f:
        return json.load(f)["findings"]


def run_replay_file(path, hashseed=None):
    with open(path) as f:
        doc = json.load(f)
    hs = hashseed if hashseed is not None else doc.get("hashseed", 0)
    try:
        int(hs)
    except (TypeError, ValueError):
        hs = 0
    p = subprocess.run(
        [PY, "-m", "cgv.worker", "--replay", path],
        env=child_env(hs),
        cwd=VERIF,
        capture_output=True,
        text=True,
    )
    verdict = None
    for line in p.stdout.splitlines():
        line = line.strip()
        if line.startswith("{"):
            try:
                verdict = json.loads(line)
            except ValueError:
                pass
    if verdict is None:
        verdict = {"verdict": "harness_error", "error": p.stdout[-2000:] + p.stderr[-2000:]}
    return doc, verdict


def hashseeds(tier, seed, n):
    # hash seed 0 always included; the others derived from VERIF_SEED
    out = [0]
    x = (seed * 2654435761 + 12345) & 0xFFFFFFFF
    while len(out) < n:
        x = (x * 1103515245 + 12345) & 0x7FFFFFFF
        hs = x % 4294967295
        if hs not in out:
            out.append(hs)
    return out


def main(argv):
    if not argv:
        print("usage: check <ID> [quick|thorough] | check --replay <file>")
        return 2
    if argv[0] == "--replay":
        doc, verdict = run_replay_file(argv[1])
        if verdict["verdict"] == "violation":
            print(f"VIOLATION property={doc['property']} replay={argv[1]}")
            print(f"  bucket: {verdict['bucket']}")
            print(f"  {verdict['message']}")
            return 1
        if verdict["verdict"] == "pass":
            print(f"replay passes: property={doc['property']} {argv[1]}")
            return 0
        print("HARNESS-ERROR during replay:\n" + verdict.get("error", ""))
        return 2

    prop = argv[0].upper()
    tier = argv[1] if len(argv) > 1 else os.environ.get("VERIF_TIER", "quick")
    if tier not in ("quick", "thorough"):
        tier = "quick"
    seed = int(os.environ.get("VERIF_SEED", "1") or "1")
    t0 = time.time()
    nworkers = int(os.environ.get("CGV_WORKERS", "16"))
    outdir = os.path.join(VERIF, ".work", f"{prop}-{tier}-{os.getpid()}")
    shutil.rmtree(outdir, ignore_errors=True)
    os.makedirs(outdir)
    evidence_path = os.path.join(os.environ.get("CGV_EVIDENCE_DIR") or os.path.join(VERIF, "evidence"), f"{prop}.json")

    def harness_fail(msg):
        print(f"HARNESS-ERROR property={prop}: {msg}")
        shutil.rmtree(outdir, ignore_errors=True)
        return 2

    # 0. stand-in self test (never a VIOLATION)
    p = subprocess.run(
        [PY, "-m", "cgv.shimtest", str(seed)],
        env=child_env(0),
        cwd=VERIF,
        capture_output=True,
        text=True,
    )
    if p.returncode != 0:
        return harness_fail("pysat/approxmc stand-in self-test failed:\n" + p.stdout + p.stderr)
    shim_note = p.stdout.strip().splitlines()[-1] if p.stdout.strip() else ""

    # 1. known findings and regressions for this property
    findings = [e for e in load_known() if e["property"] == prop]
    violations = []  # (bucket, path, message)
    known_lines = []
    stale_known = []
    for e in findings:
        rp = os.path.join(VERIF, e["repro"])
        if not os.path.exists(rp):
            return harness_fail(f"missing reproducer {e['repro']}")
        doc, verdict = run_replay_file(rp)
        if verdict["verdict"] == "harness_error":
            return harness_fail(f"replay of {e['repro']}:\n{verdict.get('error')}")
        if e["status"] == "known":
            if verdict["verdict"] == "violation":
                known_lines.append(
                    f"KNOWN-FINDING: property={prop} {e['id']} {e['trigger']} "
                    f"[replay={e['repro']}]"
                )
            else:
                stale_known.append(e["id"])
        else:  # fixed: suppresses nothing
            if verdict["verdict"] == "violation":
                violations.append((verdict["bucket"], rp, "fixed finding returned: " + verdict["message"]))

    # 2. workers
    hs = hashseeds(tier, seed, nworkers)  # every worker its own hash order
    procs = []
    for w in range(nworkers):
        h = hs[w % len(hs)]
        logf = open(os.path.join(outdir, f"w{w}.log"), "w")
        procs.append(
            (
                w,
                subprocess.Popen(
                    [PY, "-m", "cgv.worker", prop, tier, str(seed), str(w), str(nworkers), outdir],
                    env=child_env(h),
                    cwd=VERIF,
                    stdout=logf,
                    stderr=subprocess.STDOUT,
                ),
                logf,
            )
        )
    results = []
    # wall-clock guard against a hanging library call: inconclusive (exit 2), never a violation
    limit = float(os.environ.get("CGV_TIMEOUT_S", "1500" if tier == "quick" else "14400"))
    deadline = time.time() + limit
    for w, pr, logf in procs:
        try:
            pr.wait(timeout=max(1.0, deadline - time.time()))
        except subprocess.TimeoutExpired:
            for _, p2, _ in procs:
                if p2.poll() is None:
                    p2.kill()
            return harness_fail(f"worker {w} exceeded the wall-clock guard of {limit:.0f}s (inconclusive: a library call hangs or the budget is too small)")
        logf.close()
        rp = os.path.join(outdir, f"w{w}.json")
        if not os.path.exists(rp):
            with open(os.path.join(outdir, f"w{w}.log")) as f:
                tail = f.read()[-3000:]
            return harness_fail(f"worker {w} died (exit {pr.returncode}):\n{tail}")
        with open(rp) as f:
            results.append(json.load(f))
    crashed = [r for r in results if r.get("status") != "ok"]
    results = [r for r in results if r.get("status") == "ok"]
    if crashed and not any(r.get("failures") for r in results):
        return harness_fail(f"worker {crashed[0].get('worker')}: {crashed[0].get('error')}")
    # some workers hit a harness error while others recorded replayable violations: the violations stand
    # (each has its own replay file); the harness error is reported next to them
    for r in crashed:
        print(f"HARNESS-ERROR property={prop}: worker {r.get('worker')}: {str(r.get('error'))[:600]} [other workers recorded violations, reported below]")

    # 2b. coverage-guided stage (thorough tier, when atheris is available): libFuzzer drives the
    # same Hypothesis strategy with coverage feedback from the circuitgraph package
    fuzz_note = "not run (quick tier)"
    if tier == "thorough" and os.environ.get("CGV_FUZZ", "1") != "0":
        if not os.path.isdir(os.path.join(VERIF, ".deps", "atheris")):
            fuzz_note = "not run (atheris not installed in .deps; run ./setup.sh)"
        else:
            q = subprocess.run([PY, "-c", "import importlib;m=importlib.import_module('cgv.props.%s');print(m.EXAMPLES['thorough'])" % prop.lower()],
                               env=child_env(0), cwd=VERIF, capture_output=True, text=True)
            try:
                fruns = max(200, int(int(q.stdout.strip().splitlines()[-1]) * float(os.environ.get("CGV_SCALE", "1")) // 4))
            except Exception:  # noqa: BLE001
                fruns = 200
            nfuzz = max(1, nworkers // 2)
            fprocs = []
            for w in range(nfuzz):
                logf = open(os.path.join(outdir, f"f{w}.log"), "w")
                fprocs.append((w, subprocess.Popen(
                    [PY, "-m", "cgv.fuzz", prop, str(seed), str(w), str(nfuzz), outdir, str(fruns)],
                    env=child_env(hs[w % len(hs)]), cwd=VERIF, stdout=logf, stderr=subprocess.STDOUT), logf))
            ok_f = 0
            bad_f = []
            for w, pr, logf in fprocs:
                try:
                    pr.wait(timeout=max(1.0, deadline - time.time()))
                except subprocess.TimeoutExpired:
                    pr.kill()
                logf.close()
                rp = os.path.join(outdir, f"f{w}.json")
                r = None
                if os.path.exists(rp):
                    with open(rp) as f:
                        r = json.load(f)
                if r is not None and r.get("status") == "ok" and "evaluations" in r:
                    results.append(r)
                    ok_f += 1
                else:
                    bad_f.append(w)
            fuzz_note = f"{ok_f} libFuzzer workers x up to {fruns} cases" + (f"; workers {bad_f} gave no result (ignored)" if bad_f else "")

    # 3. merge
    import importlib

    sys.path.insert(0, VERIF)
    evaluations = sum(r["evaluations"] for r in results)
    core_evals = sum(r["core_evaluations"] for r in results)
    nontrivial = set()
    labels = {}
    samples = []
    excluded = {}
    by_bucket = {}
    for r in results:
        nontrivial.update(r["nontrivial"])
        for k, v in r["labels"].items():
            labels[k] = labels.get(k, 0) + v
        for k, v in r["excluded"].items():
            excluded[k] = excluded.get(k, 0) + v
        for s in r["samples"]:
            if len(samples) < 5:
                samples.append(s)
        for f in r["failures"]:
            cur = by_bucket.get(f["bucket"])
            if cur is None or f["size"] < cur["size"]:
                if cur is not None and os.path.exists(cur["path"]):
                    os.remove(cur["path"])
                by_bucket[f["bucket"]] = f
            elif os.path.exists(f["path"]):
                os.remove(f["path"])
    for b, f in sorted(by_bucket.items()):
        final = os.path.join(os.path.dirname(f["path"]), os.path.basename(f["path"]).rsplit("-w", 1)[0] + ".json")
        os.replace(f["path"], final)
        violations.append((b, final, f["message"]))

    meta = {}
    try:
        # module metadata without importing circuitgraph-dependent code paths
        env = child_env(0)
        q = subprocess.run(
            [PY, "-c",
             "import json,importlib,sys;m=importlib.import_module('cgv.props.%s');"
             "print(json.dumps({'rule':m.RULE,'assumptions':m.ASSUMPTIONS,'exhaustive':getattr(m,'EXHAUSTIVE_NOTE','')}))"
             % prop.lower()],
            env=env, cwd=VERIF, capture_output=True, text=True)
        meta = json.loads(q.stdout.strip().splitlines()[-1])
    except Exception as e:  # noqa: BLE001
        return harness_fail(f"cannot read module metadata: {e}")

    wall = time.time() - t0
    evidence = {
        "property_id": prop,
        "tier": tier,
        "seed": seed,
        "level": "exploration",
        "coverage": {
            "evaluations": evaluations,
            "distinct_nontrivial": len(nontrivial),
            "rule": meta["rule"],
            "samples": samples,
            "core_evaluations": core_evals,
            "core_note": meta.get("exhaustive", ""),
            "labels": dict(sorted(labels.items())),
            "hash_seeds": sorted({str(r["hashseed"]) for r in results}),
            "workers": nworkers,
            "excluded_because_of_known_findings": excluded,
            "known_findings_reported": [ln for ln in known_lines],
            "known_findings_not_reproducing": stale_known,
            "shim_selftest": shim_note,
            "coverage_guided_stage": fuzz_note,
            "coverage_guided_cases": sum(r.get("fuzz_cases", 0) for r in results),
            "exhaustive": False,
        },
        "assumptions": meta["assumptions"],
        "wall_s": round(wall, 2),
        "violations": len(violations),
    }
    os.makedirs(os.path.dirname(evidence_path), exist_ok=True)
    with open(evidence_path + ".tmp", "w") as f:
        json.dump(evidence, f, indent=1, sort_keys=True, default=str)
    os.replace(evidence_path + ".tmp", evidence_path)
    shutil.rmtree(outdir, ignore_errors=True)

    for ln in known_lines:
        print(ln)
    for kid in stale_known:
        print(f"NOTE: known finding {kid} no longer reproduces (property={prop})")
    print(
        f"{prop} {tier}: evaluations={evaluations} (core {core_evals}) "
        f"distinct_nontrivial={len(nontrivial)} violations={len(violations)} wall={wall:.1f}s"
    )
    if violations:
        for b, path, msg in violations:
            rel = os.path.relpath(path, VERIF) if path.startswith(VERIF + os.sep) else path
            print(f"VIOLATION property={prop} replay={rel}")
            print(f"  bucket: {b}")
            print("  " + msg.replace("\n", "\n  ")[:1500])
        return 1
    return 0


if __name__ == "__main__":
    sys.exit(main(sys.argv[1:]))
