"""Hypothesis strategies shared by the property modules.

Rule: construct, do not filter.  All randomness comes from Hypothesis draws.
"""
from hypothesis import strategies as st

NARY = ["and", "nand", "or", "nor", "xor", "xnor"]
UNARY = ["buf", "not"]
ALL_GATES = NARY + UNARY

# ------------------------------------------------------------------ names
# benign: no dot, never equal to a name a transform creates from other benign names.
BENIGN = (
    [chr(c) for c in range(ord("a"), ord("z") + 1) if chr(c) not in "x"]
    + [f"n{i}" for i in range(1, 13)]
    + [f"G{i}" for i in range(1, 9)]
    + ["N10", "N22", "i0", "i1", "g0", "g7", "in3", "out2", "Sum", "Cy", "w9", "K"]
    # underscore / numeric-suffix names (the style of uid() and of synthesis tools); none of them
    # equals a name that a transform generates from the other names of this pool
    + ["n_1", "n_12", "net_3", "x_0", "g_0", "a_b", "sig_a", "w_1_2", "G_7_", "q_reg"]
)
# concatenation-ambiguous names (C01: aux variables are keyed by joined names)
COMPOUND = ["a", "b", "c", "a_b", "b_c", "a_b_c", "c_a", "b_a", "c_b", "a_c"]
# names that look like names the tools synthesise
TOOLLIKE = [
    "xor_a_b", "xor_b_a", "xor_b_c", "xor_c_b", "xor_a_c", "xor_c_a",
    "xor_inv_g", "xor_inv_h", "xor_xor_a_b_c", "xor_c_xor_a_b", "g", "h",
    "not_a", "and_a_b", "or_a_b", "tie0", "g_0", "c0_a", "a_X", "aux_in_a", "g_X", "h_X", "xor_g", "xor_inv",
]
ESCAPED = ["\\x[3]", "\\a.b", "\\k;", "\\1st", "\\p(0)", "\\q,r", "\\m=n", "\\z[1][2]"]


SUFFIXES = ["_inv", "_pre", "_X", "_0", "_n", "_b", "_new", "_tmp", "_buf", "_in", "_out", "_not", "_1", "_x", "_aux",
            "_cp", "_d", "_q", "[0]", "[1]", "_3", "[3]", "_c", "_r"]


@st.composite
def related_names_pool(draw, escaped=False):
    """A small pool in which names are related the way generated names are: a few bases, each also with a few
    suffixes (sel / sel_inv / sel_pre, d[0] / d_0 ...) and, optionally, in escaped spelling (\\q next to q)."""
    bases = draw(st.lists(st.sampled_from(["d", "m", "sel", "x", "en", "q", "n1", "a"]), min_size=2, max_size=3, unique=True))
    sufs = draw(st.lists(st.sampled_from(SUFFIXES), min_size=2, max_size=3, unique=True))
    pool = []
    for b in bases:
        pool.append(b)
        for s_ in sufs:
            pool.append(b + s_)
        if escaped:
            pool.append("\\" + b)
    return pool + [n for n in BENIGN[:8] if n not in pool]


def names_from(draw, pools, count):
    pool = []
    for p in pools:
        for n in p:
            if n not in pool:
                pool.append(n)
    i = 0
    while count > len(pool):
        # small special-purpose pools: top up with plain names instead of failing
        if f"nx{i}" not in pool:
            pool.append(f"nx{i}")
        i += 1
    return draw(
        st.lists(st.sampled_from(pool), min_size=count, max_size=count, unique=True)
    )


FANIN_WEIGHTS = [1, 2, 2, 2, 2, 3, 3, 3, 4, 4, 5, 6, 7]

# set by the harness for the thorough tier: larger circuits than in the quick tier
SIZE_BOOST = 1.0


@st.composite
def circuit_spec(
    draw,
    min_inputs=1,
    max_inputs=5,
    min_gates=1,
    max_gates=10,
    max_fanin=4,
    types=ALL_GATES,
    consts=True,
    const_types=("0", "1"),
    cyclic=False,
    selfloops=False,
    max_insts=0,
    unconnected_pins=False,
    pools=(BENIGN,),
    outputs="sinks+random",
    io_outputs=False,
    name="c",
    single_output=False,
    min_fanin_nary=1,
    shuffle=True,
    bb_type_names=None,
    distinct_bb=False,
):
    """Draw a lint-clean circuit spec (see cgv.specs)."""
    if SIZE_BOOST > 1.0:
        max_gates = int(max_gates * SIZE_BOOST) + 1
        max_inputs = max_inputs + 1
    n_in = draw(st.integers(min_inputs, max_inputs))
    n_const = draw(st.integers(0, 2)) if consts else 0
    n_gates = draw(st.integers(min_gates, max_gates))

    # blackbox types / instances
    bbtypes = []
    insts_plan = []
    n_bb_bufs = 0
    if max_insts:
        n_inst = draw(st.integers(0, max_insts))
        if n_inst:
            n_types = draw(st.integers(1, min(2, n_inst)))
            # some pin names are suffixes of others (d/sd, clk/gclk, q/nq)
            pin_in = ["d", "clk", "en", "A", "sd", "gclk"]
            pin_out = ["q", "qn", "Y", "nq"]
            for ti in range(n_types):
                ins = draw(st.lists(st.sampled_from(pin_in), min_size=0, max_size=3, unique=True))
                outs = draw(
                    st.lists(
                        st.sampled_from(pin_out),
                        min_size=0 if ins else 1,
                        max_size=2,
                        unique=True,
                    )
                )
                tname = f"bbt{ti}"
                if bb_type_names:
                    tname = draw(st.sampled_from([n for n in bb_type_names if n not in [b[0] for b in bbtypes]]))
                bbtypes.append([tname, ins, outs])
            for ii in range(n_inst):
                ti = draw(st.integers(0, n_types - 1))
                out_conn = []
                for p in bbtypes[ti][2]:
                    conn = True
                    if unconnected_pins:
                        conn = draw(st.booleans())
                    out_conn.append(conn)
                    if conn:
                        n_bb_bufs += 1
                insts_plan.append((ii, ti, out_conn))

    total = n_in + n_const + n_bb_bufs + n_gates
    names = names_from(draw, pools, total)
    nodes = []  # [name, type, fanin, out]
    k = 0
    for _ in range(n_in):
        nodes.append([names[k], "input", [], False])
        k += 1
    for _ in range(n_const):
        nodes.append([names[k], draw(st.sampled_from(list(const_types))), [], False])
        k += 1
    bb_buf_names = []
    for _ in range(n_bb_bufs):
        nodes.append([names[k], "buf", [], False])
        bb_buf_names.append(names[k])
        k += 1
    n_src = len(nodes)
    if n_src == 0:
        # need at least one source: force a constant
        nodes.append([names[k], "0", [], False])
        k += 1
        n_src = 1
        n_gates = max(0, n_gates - 1)
    gate_names = names[k : k + n_gates]
    all_names = [x[0] for x in nodes] + list(gate_names)
    for gi, gname in enumerate(gate_names):
        t = draw(st.sampled_from(list(types)))
        if cyclic:
            cands = [n for n in all_names if selfloops or n != gname]
            # bias towards earlier nodes so that cycles are present but sparse
            early = all_names[: n_src + gi]
        else:
            cands = all_names[: n_src + gi]
            early = cands
        if t in UNARY:
            nf = 1
        else:
            nf = draw(st.sampled_from(FANIN_WEIGHTS))
            nf = min(max(min_fanin_nary, min(nf, max_fanin)), len(cands))
        if cyclic and draw(st.integers(0, 3)) == 0:
            src = cands
        else:
            src = early if len(early) >= nf else cands
        fanin = draw(st.lists(st.sampled_from(src), min_size=nf, max_size=nf, unique=True))
        nodes.append([gname, t, fanin, False])

    # blackbox instances: inputs may hang on any net, outputs drive their bufs
    insts = []
    bi = 0
    drivable = [x[0] for x in nodes]
    for ii, ti, out_conn in insts_plan:
        conns = {}
        for p in bbtypes[ti][1]:
            conn = True
            if unconnected_pins and unconnected_pins != "outputs":
                conn = draw(st.integers(0, 4)) != 0
            if conn:
                conns[p] = draw(st.sampled_from(drivable))
        for p, cn in zip(bbtypes[ti][2], out_conn):
            if cn:
                conns[p] = bb_buf_names[bi]
                bi += 1
        insts.append([f"u{ii}", ti, conns])

    # outputs
    loaded = set()
    for x in nodes:
        loaded.update(x[2])
    for _, _, conns in insts:
        pass
    bb_loaded = set()
    for iname, ti, conns in insts:
        for p in bbtypes[ti][1]:
            if p in conns:
                bb_loaded.add(conns[p])
    if single_output:
        gate_like = [x for x in nodes if x[1] in ALL_GATES]
        sinks = [x for x in gate_like if x[0] not in loaded]
        tgt = sinks[-1] if sinks else (gate_like[-1] if gate_like else nodes[-1])
        tgt[3] = True
    else:
        for x in nodes:
            is_io = x[1] in ("input", "0", "1", "x")
            if outputs in ("sinks+random", "sinks"):
                if not is_io and x[0] not in loaded and x[0] not in bb_loaded:
                    x[3] = True
            if outputs in ("sinks+random", "random"):
                if (not is_io or io_outputs) and draw(st.integers(0, 5)) == 0:
                    x[3] = True
    if shuffle and draw(st.booleans()):
        # node storage order need not be topological (specs.build adds all nodes, then all edges)
        nodes = list(draw(st.permutations(nodes)))
    spec = {"name": name, "nodes": nodes, "bbtypes": bbtypes, "insts": insts}
    if draw(st.integers(0, 7)) == 0:
        # as the fast Verilog parser (or a user-supplied graph) builds circuits: nodes that are not
        # outputs carry no 'output' attribute at all
        spec["raw_attrs"] = True
    return spec


def valuation_bits(n):
    """Strategy for n random W-bit tables (W fixed at 64) as ints."""
    return st.lists(st.integers(0, (1 << 64) - 1), min_size=n, max_size=n)
