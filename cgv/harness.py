"""Worker-side harness: judges cases, records evidence, drives Hypothesis.

A property module provides
    ID, RULE (str), ASSUMPTIONS (list of str)
    core(ctx)      -> iterable of JSON-able cases (deterministic, finite)
    strategy(ctx)  -> Hypothesis strategy of JSON-able cases
    check(case, ctx) -> dict(nontrivial=bool, labels=[...]) or raises Violation
    EXAMPLES[tier] -> Hypothesis examples per worker
"""
import hashlib
import json
import os
import sys
import time
import traceback

VERIF = os.path.dirname(os.path.dirname(os.path.abspath(__file__)))


class Violation(Exception):
    """The library broke the property on this case."""

    def __init__(self, bucket, message):
        super().__init__(f"[{bucket}] {message}")
        self.bucket = bucket
        self.message = message


class HarnessError(Exception):
    """The checking machinery itself is at fault; never a VIOLATION."""


class Ok:
    ok = True

    def __init__(self, value):
        self.value = value


class Raised:
    ok = False

    def __init__(self, exc):
        self.exc = exc
        self.type = type(exc).__name__
        tb = traceback.extract_tb(exc.__traceback__)
        where = "?"
        for fr in tb:
            if "/circuitgraph/" in fr.filename.replace("\\", "/"):
                where = f"{os.path.basename(fr.filename)}:{fr.name}"
        self.where = where
        self.innermost = tb[-1].filename if tb else ""
        self.text = f"{self.type}: {exc}"

    def __repr__(self):
        return f"Raised({self.text} @ {self.where})"


def lib(fn, *args, **kwargs):
    """Call a library function; separate 'the library raised' from harness
    faults (exceptions whose innermost frame is in /verif code)."""
    try:
        return Ok(fn(*args, **kwargs))
    except (KeyboardInterrupt, SystemExit):
        raise
    except MemoryError as e:
        # workers run under an address-space limit: a library call that blows it up on the
        # small inputs generated here is reported as an outcome of the call, not as a crash
        import gc

        gc.collect()
        r = Raised(e)
        r.text = "MemoryError: library call exceeded the worker's memory limit"
        return r
    except HarnessError:
        raise
    except Violation:
        raise
    except BaseException as e:  # noqa: BLE001
        r = Raised(e)
        inner = os.path.abspath(r.innermost) if r.innermost else ""
        if inner.startswith(VERIF + os.sep):
            raise HarnessError(
                f"exception inside verification code during library call: {r.text}\n"
                + "".join(traceback.format_exception(type(e), e, e.__traceback__))
            ) from e
        return r


def need(out, bucket, what):
    """The property promises a result here: a raise is a violation."""
    if not out.ok:
        raise Violation(f"{bucket}|{out.type}|{out.where}", f"{what} raised {out.text}")
    return out.value


def digest(obj):
    s = json.dumps(obj, sort_keys=True, default=str).encode()
    return int.from_bytes(hashlib.blake2b(s, digest_size=8).digest(), "big")


def case_size(case):
    return len(json.dumps(case, sort_keys=True, default=str))


class Ctx:
    def __init__(self, prop, tier, seed, worker, nworkers, hashseed, outdir, known):
        self.prop = prop
        self.tier = tier
        self.seed = seed
        self.worker = worker
        self.nworkers = nworkers
        self.hashseed = hashseed
        self.outdir = outdir
        self.known = known  # dict finding id -> entry (status 'known')
        self.evaluations = 0
        self.core_evaluations = 0
        self.nontrivial = set()
        self.labels = {}
        self.samples = []
        self.sample_digests = set()
        self.failures = {}  # bucket -> dict(message, path, size, case)
        self.passed_buckets = set()  # buckets treated as pass in later rounds
        self.excluded_counts = {}
        self.t0 = time.time()
        self.first_fail_t = None
        self.shrink_budget = 45 if tier == "quick" else 240
        self.phase = "core"
        self.tmp = os.path.join(outdir, f"tmp-w{worker}")
        os.makedirs(self.tmp, exist_ok=True)

    # -- used by property modules
    def excluded(self, fid):
        """True when finding `fid` is a listed known finding: the generator
        must then not produce its trigger (and counts what it left out)."""
        return fid in self.known

    def count_excluded(self, fid, n=1):
        self.excluded_counts[fid] = self.excluded_counts.get(fid, 0) + n

    def label(self, name, n=1):
        self.labels[name] = self.labels.get(name, 0) + n

    # -- judging
    def judge(self, case, from_hypothesis=True):
        mod = self.mod
        if self.first_fail_t is not None and from_hypothesis:
            if time.time() - self.first_fail_t > self.shrink_budget:
                # shrink budget spent: let Hypothesis finish on what it has
                d = digest(case)
                for f in self.failures.values():
                    if f["digest"] == d and f["bucket"] not in self.passed_buckets:
                        raise AssertionError(f["bucket"])
                return
        self.evaluations += 1
        try:
            try:
                res = mod.check(case, self)
            except Exception as e:  # noqa: BLE001
                from cgv import refsim as _refsim

                if isinstance(e, _refsim.MalformedCircuit):
                    raise Violation("malformed_result|" + str(e).split(" node ")[0][:40],
                                    f"a circuit produced by the library is malformed: {e}") from None
                raise
        except Violation as v:
            self._record_failure(case, v)
            if v.bucket in self.passed_buckets:
                return
            if self.first_fail_t is None:
                self.first_fail_t = time.time()
            if from_hypothesis:
                raise AssertionError(v.bucket) from None
            return
        if res is None:
            res = {}
        for lb in res.get("labels", ()):
            self.label(lb)
        if res.get("nontrivial"):
            d = digest(case)
            self.nontrivial.add(d)
            if len(self.samples) < 4 and d not in self.sample_digests:
                if case_size(case) < 4000:
                    self.samples.append(case)
                    self.sample_digests.add(d)

    def _record_failure(self, case, v):
        size = case_size(case)
        prev = self.failures.get(v.bucket)
        if prev is not None and prev["size"] <= size:
            prev["count"] += 1
            return
        bd = hashlib.blake2b(v.bucket.encode(), digest_size=5).hexdigest()
        rdir = os.environ.get("CGV_REPLAY_DIR") or os.path.join(VERIF, "replays")
        path = os.path.join(rdir, f"{self.prop}-{bd}-w{self.worker}.json")
        os.makedirs(os.path.dirname(path), exist_ok=True)
        doc = {
            "property": self.prop,
            "bucket": v.bucket,
            "message": v.message,
            "hashseed": self.hashseed,
            "seed": self.seed,
            "tier": self.tier,
            "case": case,
        }
        tmp = path + ".tmp"
        with open(tmp, "w") as f:
            json.dump(doc, f, indent=1, sort_keys=True, default=str)
        os.replace(tmp, path)
        self.failures[v.bucket] = {
            "bucket": v.bucket,
            "message": v.message[:2000],
            "path": path,
            "size": size,
            "digest": digest(case),
            "count": (prev["count"] + 1) if prev else 1,
        }

    def result(self):
        return {
            "worker": self.worker,
            "hashseed": self.hashseed,
            "evaluations": self.evaluations,
            "core_evaluations": self.core_evaluations,
            "nontrivial": sorted(self.nontrivial),
            "labels": self.labels,
            "samples": self.samples,
            "failures": list(self.failures.values()),
            "excluded": self.excluded_counts,
            "wall_s": time.time() - self.t0,
        }


def run_hypothesis(ctx, mod, examples):
    import hypothesis
    from hypothesis import HealthCheck, Phase, given, settings

    strat = mod.strategy(ctx)
    case_seed = (ctx.seed * 1000003 + ctx.worker * 7919 + 17) & 0x7FFFFFFF
    rounds = 1 if ctx.tier == "quick" else 3
    for rnd in range(rounds):
        before = set(ctx.failures)
        ctx.first_fail_t = None

        @hypothesis.seed(case_seed + rnd)
        @settings(
            max_examples=examples,
            database=None,
            deadline=None,
            derandomize=False,
            report_multiple_bugs=False,
            suppress_health_check=list(HealthCheck),
            phases=[Phase.generate, Phase.shrink],
            print_blob=False,
        )
        @given(strat)
        def test(case):
            ctx.judge(case)

        try:
            test()
        except HarnessError:
            raise
        except AssertionError:
            pass
        except BaseException as e:  # noqa: BLE001
            # Flaky / Unsatisfiable etc.  Our own records decide the verdict;
            # but an error with no recorded failure is a harness problem.
            if not ctx.failures:
                name = type(e).__name__
                if name in ("Flaky", "FlakyFailure", "FlakyStrategyDefinition"):
                    raise HarnessError(f"hypothesis flaky: {e}") from e
                raise
        new = set(ctx.failures) - before
        if not new:
            break
        ctx.passed_buckets |= new


def worker_main(argv):
    import importlib

    prop, tier, seed, worker, nworkers, outdir = argv[:6]
    try:
        import resource

        lim = int(float(os.environ.get("CGV_MEM_GB", "3")) * (1 << 30))
        resource.setrlimit(resource.RLIMIT_AS, (lim, lim))
    except Exception:  # noqa: BLE001
        pass
    seed = int(seed)
    worker = int(worker)
    nworkers = int(nworkers)
    hashseed = os.environ.get("PYTHONHASHSEED", "random")
    res_path = os.path.join(outdir, f"w{worker}.json")
    out = {"worker": worker, "hashseed": hashseed}
    try:
        import circuitgraph

        repo = os.environ.get("CGV_REPO", "/repo")
        cgfile = os.path.abspath(circuitgraph.__file__)
        if not cgfile.startswith(os.path.abspath(repo) + os.sep):
            raise HarnessError(f"circuitgraph imported from {cgfile}, not {repo}")
        import pysat

        if "verif-standin" not in getattr(pysat, "__version__", ""):
            raise HarnessError("unexpected pysat on path (expected the /verif stand-in)")
        with open(os.path.join(VERIF, "known_findings.json")) as f:
            kf = json.load(f)
        known = {
            e["id"]: e
            for e in kf["findings"]
            if e["status"] == "known"
        }
        mod = importlib.import_module(f"cgv.props.{prop.lower()}")
        ctx = Ctx(prop, tier, seed, worker, nworkers, hashseed, outdir, known)
        ctx.mod = mod
        if tier == "thorough":
            from cgv import strategies as _S

            _S.SIZE_BOOST = 1.4
        # exhaustive core, sharded
        ctx.phase = "core"
        for i, case in enumerate(mod.core(ctx)):
            if i % nworkers != worker:
                continue
            ctx.judge(case, from_hypothesis=False)
            ctx.core_evaluations += 1
        ctx.phase = "random"
        # failures of the core already have their replay files: let the random
        # phase search behind them instead of re-finding (and re-shrinking) them
        ctx.passed_buckets |= set(ctx.failures)
        examples = mod.EXAMPLES[tier]
        scale = float(os.environ.get("CGV_SCALE", "1"))
        examples = max(1, int(examples * scale))
        if examples > 0:
            run_hypothesis(ctx, mod, examples)
        out.update(ctx.result())
        out["status"] = "ok"
    except HarnessError as e:
        out["status"] = "harness_error"
        out["error"] = str(e)
    except BaseException as e:  # noqa: BLE001
        out["status"] = "harness_error"
        out["error"] = "".join(traceback.format_exception(type(e), e, e.__traceback__))
    with open(res_path + ".tmp", "w") as f:
        json.dump(out, f, default=str)
    os.replace(res_path + ".tmp", res_path)
    return 0


def replay_main(path):
    """Run the oracle on a saved case, bypassing Hypothesis.  Prints the
    verdict; exit 1 on violation, 0 if the case passes, 2 on harness error."""
    import importlib

    with open(path) as f:
        doc = json.load(f)
    prop = doc["property"]
    with open(os.path.join(VERIF, "known_findings.json")) as f:
        kf = json.load(f)
    known = {e["id"]: e for e in kf["findings"] if e["status"] == "known"}
    mod = importlib.import_module(f"cgv.props.{prop.lower()}")
    outdir = os.environ.get("CGV_OUTDIR") or os.path.join(VERIF, ".work", "replay")
    os.makedirs(outdir, exist_ok=True)
    ctx = Ctx(prop, "quick", 0, 0, 1, os.environ.get("PYTHONHASHSEED", "?"), outdir, known)
    ctx.mod = mod
    ctx.replaying = True
    try:
        try:
            mod.check(doc["case"], ctx)
        except Exception as e:  # noqa: BLE001
            from cgv import refsim as _refsim

            if isinstance(e, _refsim.MalformedCircuit):
                raise Violation("malformed_result|" + str(e).split(" node ")[0][:40],
                                f"a circuit produced by the library is malformed: {e}") from None
            raise
    except Violation as v:
        print(json.dumps({"verdict": "violation", "bucket": v.bucket, "message": v.message[:3000]}))
        return 1
    except BaseException as e:  # noqa: BLE001
        print(json.dumps({"verdict": "harness_error", "error": "".join(
            traceback.format_exception(type(e), e, e.__traceback__))[-3000:]}))
        return 2
    print(json.dumps({"verdict": "pass"}))
    return 0


