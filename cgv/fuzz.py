"""Coverage-guided stage (thorough tier): atheris / libFuzzer drives the property's
Hypothesis strategy through `fuzz_one_input`, with coverage feedback from the
circuitgraph package.  Same oracle, same result format as a normal worker.

usage: python -m cgv.fuzz <PROP> <seed> <worker> <nworkers> <outdir> <runs>

libFuzzer never returns from Fuzz(), so results are written by the test function
itself when the budget is reached (and every 500 cases).  A failing case does not
abort the campaign: it is recorded (replay file = smallest failing case seen per
bucket, no shrinking) and fuzzing continues behind it.
"""
import hashlib
import json
import os
import sys
import time
import traceback

VERIF = os.path.dirname(os.path.dirname(os.path.abspath(__file__)))


def main(argv):
    prop, seed, worker, nworkers, outdir, runs = argv[:6]
    seed, worker, nworkers, runs = int(seed), int(worker), int(nworkers), int(runs)
    res_path = os.path.join(outdir, f"f{worker}.json")
    out = {"worker": f"fuzz{worker}", "hashseed": os.environ.get("PYTHONHASHSEED", "random")}

    def dump(extra=None):
        o = dict(out)
        if extra:
            o.update(extra)
        with open(res_path + ".tmp", "w") as f:
            json.dump(o, f, default=str)
        os.replace(res_path + ".tmp", res_path)

    try:
        sys.path.insert(0, os.path.join(VERIF, ".deps"))
        try:
            import resource

            lim = int(float(os.environ.get("CGV_MEM_GB", "3")) * (1 << 30))
            resource.setrlimit(resource.RLIMIT_AS, (lim, lim))
        except Exception:  # noqa: BLE001
            pass
        import atheris

        with atheris.instrument_imports(include=["circuitgraph"]):
            import circuitgraph
        import importlib

        from hypothesis import HealthCheck, given, settings

        from cgv import harness

        repo = os.environ.get("CGV_REPO", "/repo")
        cgfile = os.path.abspath(circuitgraph.__file__)
        if not cgfile.startswith(os.path.abspath(repo) + os.sep):
            raise harness.HarnessError(f"circuitgraph imported from {cgfile}, not {repo}")
        with open(os.path.join(VERIF, "known_findings.json")) as f:
            kf = json.load(f)
        known = {e["id"]: e for e in kf["findings"] if e["status"] == "known"}
        mod = importlib.import_module(f"cgv.props.{prop.lower()}")
        ctx = harness.Ctx(prop, "thorough", seed, 1000 + worker, nworkers, out["hashseed"], outdir, known)
        ctx.mod = mod
        ctx.phase = "fuzz"
        from cgv import strategies as _S

        _S.SIZE_BOOST = 1.4
        state = {"n": 0, "t0": time.time()}

        def finish():
            r = ctx.result()
            r["status"] = "ok"
            r["fuzz_cases"] = state["n"]
            dump(r)

        @settings(database=None, deadline=None, suppress_health_check=list(HealthCheck))
        @given(mod.strategy(ctx))
        def test(case):
            state["n"] += 1
            try:
                ctx.judge(case, from_hypothesis=False)
            except harness.HarnessError:
                raise
            if state["n"] % 500 == 0:
                finish()
            if state["n"] >= runs:
                finish()
                os._exit(0)

        corpus = os.path.join(outdir, f"corpus{worker}")
        os.makedirs(corpus, exist_ok=True)
        for i in range(6):
            # deterministic seed inputs: long enough for Hypothesis to complete a draw
            blob = b""
            k = 0
            while len(blob) < 3000:
                blob += hashlib.blake2b(f"{seed}-{worker}-{i}-{k}".encode(), digest_size=64).digest()
                k += 1
            with open(os.path.join(corpus, f"seed{i}"), "wb") as f:
                f.write(blob)
        dump({"status": "running"})
        args = [sys.argv[0], f"-runs={runs * 3}", "-max_len=8192", "-len_control=0", f"-seed={seed * 131 + worker + 1}",
                "-print_final_stats=0", "-verbosity=0", corpus]
        atheris.Setup(args, test.hypothesis.fuzz_one_input)
        atheris.Fuzz()
        finish()
    except SystemExit:
        raise
    except BaseException as e:  # noqa: BLE001
        out["status"] = "harness_error"
        out["error"] = "".join(traceback.format_exception(type(e), e, e.__traceback__))
        dump()
    return 0


if __name__ == "__main__":
    sys.exit(main(sys.argv[1:]))
