"""Entry point of worker / replay processes (kept separate from cgv.harness so
that the exception classes are the ones the property modules import)."""
import sys

from cgv import harness

if __name__ == "__main__":
    if sys.argv[1] == "--replay":
        sys.exit(harness.replay_main(sys.argv[2]))
    sys.exit(harness.worker_main(sys.argv[1:]))
