"""Reference semantics of circuitgraph circuits -- the trusted base.

Written from the documentation in circuitgraph/circuit.py, independent of
circuitgraph.sat.  Imports nothing from circuitgraph; reads only
``c.graph`` (a networkx DiGraph: node attribute dicts, pred, succ) and
``c.blackboxes``.

All evaluation is bit-parallel: a *table* is a Python int whose bit j is the
value under valuation number j; W is the number of valuations.
"""

NARY = ("and", "nand", "or", "nor", "xor", "xnor")
UNARY = ("buf", "not", "bb_input")
GATES = NARY + ("buf", "not")
FREE_TYPES = ("input", "bb_output")
CONSTS = ("0", "1")
SUPPORTED = GATES + ("0", "1", "x", "input", "bb_input", "bb_output")


class RefError(Exception):
    """The reference code was asked something outside its domain (harness bug)."""


def gtype(c, n):
    return c.graph.nodes[n].get("type")


def preds(c, n):
    return list(c.graph.pred[n])


def succs(c, n):
    return list(c.graph.succ[n])


def is_out(c, n):
    return bool(c.graph.nodes[n].get("output", False))


def nodes(c):
    return list(c.graph.nodes)


def gate_fn(t, ins, full):
    """Value table of a gate of type t with fan-in tables `ins` (non-empty)."""
    if t in ("buf", "bb_input"):
        if len(ins) != 1:
            raise RefError(f"{t} with {len(ins)} fan-in")
        return ins[0]
    if t == "not":
        if len(ins) != 1:
            raise RefError(f"not with {len(ins)} fan-in")
        return ins[0] ^ full
    if t in ("and", "nand"):
        r = full
        for v in ins:
            r &= v
    elif t in ("or", "nor"):
        r = 0
        for v in ins:
            r |= v
    elif t in ("xor", "xnor"):
        r = 0
        for v in ins:
            r ^= v
    else:
        raise RefError(f"no function for type {t!r}")
    if t in ("nand", "nor", "xnor"):
        r ^= full
    return r


def free_nodes(c):
    """Nodes whose value is not determined by the circuit: inputs, blackbox
    outputs, and gates/pins without any driver."""
    out = []
    for n in c.graph.nodes:
        t = gtype(c, n)
        if t in FREE_TYPES:
            out.append(n)
        elif t in GATES or t == "bb_input":
            if not c.graph.pred[n]:
                out.append(n)
    return sorted(out)


def topo(c):
    """Kahn topological order; raises RefError on a cycle."""
    indeg = {n: len(c.graph.pred[n]) for n in c.graph.nodes}
    ready = sorted(n for n, d in indeg.items() if d == 0)
    order = []
    while ready:
        n = ready.pop()
        order.append(n)
        for s in c.graph.succ[n]:
            indeg[s] -= 1
            if indeg[s] == 0:
                ready.append(s)
    if len(order) != len(indeg):
        raise RefError("cyclic circuit passed to acyclic reference simulation")
    return order


def has_cycle(c):
    try:
        topo(c)
        return False
    except RefError:
        return True


def pattern(i, k):
    """Table of variable i among k variables under the standard enumeration
    (bit j of the table = bit i of j), W = 2**k."""
    w = 1 << k
    block = 1 << i
    # repeating pattern: block zeros then block ones
    unit = ((1 << block) - 1) << block
    r = unit
    size = block << 1
    while size < w:
        r |= r << size
        size <<= 1
    return r & ((1 << w) - 1)


def std_assignment(free):
    """Standard exhaustive assignment for an ordered list of free nodes."""
    k = len(free)
    return {n: pattern(i, k) for i, n in enumerate(free)}, 1 << k


def simulate(c, free_tables, W, x_tables=None, force=None):
    """Evaluate an acyclic circuit.

    free_tables: dict node -> table for every free node (see free_nodes).
    x_tables: optional dict giving a table for nodes of type 'x'.
    force: optional dict node -> table overriding the value of those nodes
    (their fan-out sees the forced value) -- used for 'flip node n'.
    Returns dict node -> table for all nodes.
    """
    full = (1 << W) - 1
    val = {}
    for n in topo(c):
        if force is not None and n in force:
            val[n] = force[n] & full
            continue
        t = gtype(c, n)
        ps = c.graph.pred[n]
        if t in FREE_TYPES:
            if ps:
                raise RefError(f"{t} node {n!r} has fan-in")
            if n not in free_tables:
                raise RefError(f"no value for free node {n!r}")
            val[n] = free_tables[n] & full
        elif t == "0":
            val[n] = 0
        elif t == "1":
            val[n] = full
        elif t == "x":
            if x_tables is None or n not in x_tables:
                raise RefError(f"'x' node {n!r} has no Boolean value")
            val[n] = x_tables[n] & full
        elif t in GATES or t == "bb_input":
            if not ps:
                if n not in free_tables:
                    raise RefError(f"no value for undriven node {n!r}")
                val[n] = free_tables[n] & full
            else:
                val[n] = gate_fn(t, [val[p] for p in ps], full)
        else:
            raise RefError(f"unsupported type {t!r} at {n!r}")
    return val


def truth_tables(c):
    """(free, W, tables) with the standard exhaustive assignment."""
    free = free_nodes(c)
    asg, W = std_assignment(free)
    return free, W, simulate(c, asg, W)


def consistent_mask(c, order=None):
    """All consistent valuations of every node (works for cyclic circuits).

    Returns (order, mask): `order` lists all nodes; bit j of mask is 1 iff the
    valuation giving node order[i] the value bit i of j is consistent: every
    driven gate equals its function of its fan-in, constants are fixed.
    """
    if order is None:
        order = sorted(c.graph.nodes)
    k = len(order)
    if k > 20:
        raise RefError("consistent_mask: too many nodes")
    W = 1 << k
    full = (1 << W) - 1
    var = {n: pattern(i, k) for i, n in enumerate(order)}
    ok = full
    for n in order:
        t = gtype(c, n)
        ps = c.graph.pred[n]
        if t == "0":
            ok &= var[n] ^ full
        elif t == "1":
            ok &= var[n]
        elif t in FREE_TYPES:
            pass
        elif t in GATES or t == "bb_input":
            if ps:
                f = gate_fn(t, [var[p] for p in ps], full)
                ok &= (var[n] ^ f) ^ full
        else:
            raise RefError(f"no Boolean semantics for type {t!r}")
    return order, ok


def bits(mask):
    """Indices of set bits."""
    out = []
    j = 0
    while mask:
        if mask & 1:
            out.append(j)
        mask >>= 1
        j += 1
    return out


def popcount(x):
    return bin(x).count("1")


# ----------------------------------------------------------------- Kleene
def kleene(c, pattern_of):
    """Three-valued gate-by-gate evaluation of an acyclic circuit.

    pattern_of: dict input -> 0, 1 or 'X'.  Returns dict node -> 0, 1 or 'X'.
    """
    val = {}
    for n in topo(c):
        t = gtype(c, n)
        ps = [val[p] for p in c.graph.pred[n]]
        if t == "input":
            val[n] = pattern_of[n]
        elif t == "0":
            val[n] = 0
        elif t == "1":
            val[n] = 1
        elif t == "buf":
            val[n] = ps[0]
        elif t == "not":
            val[n] = "X" if ps[0] == "X" else 1 - ps[0]
        elif t in ("and", "nand"):
            if 0 in ps:
                r = 0
            elif "X" in ps:
                r = "X"
            else:
                r = 1
            val[n] = r if t == "and" or r == "X" else 1 - r
        elif t in ("or", "nor"):
            if 1 in ps:
                r = 1
            elif "X" in ps:
                r = "X"
            else:
                r = 0
            val[n] = r if t == "or" or r == "X" else 1 - r
        elif t in ("xor", "xnor"):
            if "X" in ps:
                r = "X"
            else:
                r = sum(ps) & 1
            val[n] = r if t == "xor" or r == "X" else 1 - r
        else:
            raise RefError(f"kleene: type {t!r}")
    return val


# ------------------------------------------------------------------- lint
def ref_lint(c, unloaded=False, undriven=True, single_input_gates=False):
    """The rules documented for utils.lint (property C20).  Returns a list of
    (rule, node) violations; empty list means lint-clean."""
    v = []
    g = c.graph
    bbs = c.blackboxes
    for n in g.nodes:
        attrs = g.nodes[n]
        if "type" not in attrs:
            v.append(("no_type", n))
            t = None
        else:
            t = attrs["type"]
            if t not in SUPPORTED:
                v.append(("unsupported_type", n))
        if isinstance(n, str) and "." in n and n.split(".")[0] not in bbs:
            v.append(("dotted_no_instance", n))
        nin = len(g.pred[n])
        if t in ("input", "0", "1", "x", "bb_output") and nin > 0:
            v.append(("fanin_on_source", n))
        if t == "bb_output":
            ss = list(g.succ[n])
            if len(ss) > 1:
                v.append(("bb_output_multi_load", n))
            if any(g.nodes[s].get("type") != "buf" for s in ss):
                v.append(("bb_output_nonbuf_load", n))
        if t in ("buf", "not", "bb_input") and nin > 1:
            v.append(("multi_driver", n))
        if undriven and t in GATES + ("bb_input",) and nin < 1:
            v.append(("undriven", n))
        if single_input_gates and t in NARY and nin < 2:
            v.append(("single_input_gate", n))
        if unloaded and not attrs.get("output", False) and not g.succ[n]:
            v.append(("unloaded", n))
    for name, bb in bbs.items():
        for p in bb.inputs():
            pn = f"{name}.{p}"
            if pn not in g.nodes:
                v.append(("missing_pin", pn))
            elif g.nodes[pn].get("type") != "bb_input":
                v.append(("mistyped_pin", pn))
        for p in bb.outputs():
            pn = f"{name}.{p}"
            if pn not in g.nodes:
                v.append(("missing_pin", pn))
            elif g.nodes[pn].get("type") != "bb_output":
                v.append(("mistyped_pin", pn))
    return v


# ---------------------------------------------------------------- graph
def ancestors(c, ns):
    seen = set()
    stack = []
    for n in ns:
        stack.extend(c.graph.pred[n])
    while stack:
        n = stack.pop()
        if n in seen:
            continue
        seen.add(n)
        stack.extend(c.graph.pred[n])
    return seen


def descendants(c, ns):
    seen = set()
    stack = []
    for n in ns:
        stack.extend(c.graph.succ[n])
    while stack:
        n = stack.pop()
        if n in seen:
            continue
        seen.add(n)
        stack.extend(c.graph.succ[n])
    return seen


def snapshot(c):
    """Deep, comparable snapshot of a circuit (for C19 and others)."""
    g = c.graph
    return {
        "name": c.name,
        "nodes": {n: dict(g.nodes[n]) for n in g.nodes},
        "edges": {(u, v): dict(g.edges[u, v]) for u, v in g.edges},
        "bbs": {
            k: (id(b), b.name, frozenset(b.inputs()), frozenset(b.outputs()))
            for k, b in c.blackboxes.items()
        },
    }
