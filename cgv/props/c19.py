"""C19 -- transforms, queries and writers never modify or alias their argument."""
import os
import shutil

import networkx as nx
from hypothesis import strategies as st

import circuitgraph as cg
from cgv import refsim, specs
from cgv import strategies as S
from cgv.harness import Violation, lib

ID = "C19"
RULE = (
    "cases: (callable, circuit, arguments, edit script) with the callable drawn from a registry of 79 "
    "public entry points -- tx: strip_io/outputs/inputs/blackboxes, relabel, subcircuit, ternary, miter "
    "(self and pair), unroll, sequential_unroll, sensitization_transform (with/without endpoints), "
    "sensitivity_transform, limit_fanin, limit_fanout, acyclic_unroll, supergates (both forms), "
    "insert_registers; props: influence, avg_sensitivity, sensitivity, sensitize, signal_probability, "
    "levelize; sat: cnf, construct_solver, solve, model_count, approx_model_count; io: circuit_to_verilog "
    "(both styles), circuit_to_bench, to_file; utils.lint; Circuit.copy and every read-only method; the "
    "argument side of add_subcircuit / fill_blackbox -- on generated lint-clean circuits (with/without "
    "blackboxes, constants, cycles; a third of them without the optional 'output' attribute on "
    "non-output nodes, as the fast parser builds them) and generated arguments, including ones on which the callable raises. "
    "Oracle: deep snapshot (node attribute dicts, edge attribute dicts, name, registry keys -> BlackBox "
    "identity and pins) of every argument circuit is equal before and after the call, returned or raised; "
    "then a drawn edit script (add/remove node, add/remove edge, retype, flip output, in-place attribute "
    "dict update, registry add/pop, in-place rename, name change) is applied to every returned circuit "
    "(argument snapshot must not change) and to the argument (result snapshot must not change); returned "
    "sets/lists/dicts are mutated too. Non-trivial: the call returned a Circuit and the edit script "
    "changed it. Distinct by digest."
)
RULE += ' Added after seeded-change rounds 4-5: edits through the public API (fill_blackbox with a matching child, add_blackbox, remove, set_output) besides raw graph edits; influence(supergates=True) at any node.'
ASSUMPTIONS = [
    "snapshot function cgv.refsim.snapshot",
    "BlackBox objects are intentionally shared between circuits; only the registry dict must not be shared",
]
EXHAUSTIVE_NOTE = "core: every registry entry once on a fixed blackbox-free circuit and once on a fixed circuit with a flop, with a fixed 12-step edit script"
EXAMPLES = {"quick": 1200, "thorough": 15000}


# ------------------------------------------------------------------ registry
def _first(xs, pick):
    xs = sorted(xs)
    return xs[pick % len(xs)] if xs else "nope"


def _state_io(c, pick):
    outs = sorted(c.outputs() - c.inputs())
    ins = sorted(c.inputs() - c.outputs())
    if outs and ins and pick % 2:
        return {outs[pick % len(outs)]: ins[pick % len(ins)]}
    return {}


REG = {
    "tx.strip_io": lambda c, c2, p, t: cg.tx.strip_io(c),
    "tx.strip_outputs": lambda c, c2, p, t: cg.tx.strip_outputs(c),
    "tx.strip_inputs": lambda c, c2, p, t: cg.tx.strip_inputs(c),
    "tx.strip_blackboxes": lambda c, c2, p, t: cg.tx.strip_blackboxes(c),
    "tx.strip_blackboxes_ign": lambda c, c2, p, t: cg.tx.strip_blackboxes(c, ignore_pins=["clk", "d"][p % 2]),
    "tx.relabel": lambda c, c2, p, t: cg.tx.relabel(c, {_first(c.nodes(), p): "renamed_node"}),
    "tx.relabel_empty": lambda c, c2, p, t: cg.tx.relabel(c, {}),
    "tx.subcircuit": lambda c, c2, p, t: cg.tx.subcircuit(c, sorted(c.nodes())[: 1 + p % max(1, len(c))]),
    "tx.subcircuit_io": lambda c, c2, p, t: cg.tx.subcircuit(c, sorted(c.nodes())[p % max(1, len(c)):], modify_io=True),
    "tx.ternary": lambda c, c2, p, t: cg.tx.ternary(c),
    "tx.miter_self": lambda c, c2, p, t: cg.tx.miter(c),
    "tx.miter_pair": lambda c, c2, p, t: cg.tx.miter(c, c2),
    "tx.unroll": lambda c, c2, p, t: cg.tx.unroll(c, 1 + p % 3, _state_io(c, p)),
    "tx.sequential_unroll": lambda c, c2, p, t: cg.tx.sequential_unroll(c, 1 + p % 3, "d", "q", add_flop_outputs=bool(p % 2)),
    "tx.sequential_unroll_ign": lambda c, c2, p, t: cg.tx.sequential_unroll(c, 1 + p % 2, "d", "q", ignore_pins=["qn", "clk", "en", "nq", "Y"][: 1 + p % 5]),
    "tx.sensitization_transform": lambda c, c2, p, t: cg.tx.sensitization_transform(c, _first(c.nodes(), p)),
    "tx.sensitization_transform_ep": lambda c, c2, p, t: cg.tx.sensitization_transform(c, _first(c.nodes(), p), _first(c.outputs(), p // 3)),
    "tx.sensitivity_transform": lambda c, c2, p, t: cg.tx.sensitivity_transform(c, _first(c.nodes(), p)),
    "tx.limit_fanin": lambda c, c2, p, t: cg.tx.limit_fanin(c, 2 + p % 2),
    "tx.limit_fanout": lambda c, c2, p, t: cg.tx.limit_fanout(c, 2 + p % 2),
    "tx.limit_fanin_bad": lambda c, c2, p, t: cg.tx.limit_fanin(c, 1),
    "tx.acyclic_unroll": lambda c, c2, p, t: cg.tx.acyclic_unroll(c),
    "tx.supergates": lambda c, c2, p, t: cg.tx.supergates(c),
    "tx.supergates_superc": lambda c, c2, p, t: cg.tx.supergates(c, construct_supercircuit=True),
    "tx.insert_registers": lambda c, c2, p, t: cg.tx.insert_registers(c, 1 + p % 2),
    "props.influence": lambda c, c2, p, t: cg.props.influence(c, _first(c.nodes(), p), approx=False),
    "props.avg_sensitivity": lambda c, c2, p, t: cg.props.avg_sensitivity(c, _first(c.nodes(), p), approx=False),
    "props.sensitivity": lambda c, c2, p, t: cg.props.sensitivity(c, _first(c.nodes(), p)),
    "props.sensitize": lambda c, c2, p, t: cg.props.sensitize(c, _first(c.nodes(), p)),
    "props.signal_probability": lambda c, c2, p, t: cg.props.signal_probability(c, _first(c.nodes(), p), approx=False),
    "props.signal_probability_approx": lambda c, c2, p, t: cg.props.signal_probability(c, _first(c.nodes(), p), approx=True),
    "props.levelize": lambda c, c2, p, t: cg.props.levelize(c),
    "props.influence_supergates": lambda c, c2, p, t: cg.props.influence(c, _first(c.nodes(), p), supergates=True, approx=False),
    "props.avg_sensitivity_list": lambda c, c2, p, t: cg.props.avg_sensitivity(c, sorted(c.outputs())[:2], approx=False),
    "props.influence_approx_logdir": lambda c, c2, p, t: cg.props.influence(c, _first(c.nodes(), p), approx=True, log_dir=os.path.join(t, "logs")),
    "props.sensitize_assume": lambda c, c2, p, t: cg.props.sensitize(c, _first(c.nodes(), p), {_first(c.inputs(), p): True}),
    "tx.syn": lambda c, c2, p, t: cg.tx.syn(c, suppress_output=True, working_dir=t),
    "tx.aig": lambda c, c2, p, t: cg.tx.aig(c),
    "utils.visualize": lambda c, c2, p, t: cg.visualize(c, os.path.join(t, "c.png")),
    "sat.approx_model_count_xor": lambda c, c2, p, t: cg.sat.approx_model_count(c, {_first(c.nodes(), p): True}, use_xor_clauses=True),
    "sat.cnf": lambda c, c2, p, t: cg.sat.cnf(c),
    "sat.construct_solver": lambda c, c2, p, t: cg.sat.construct_solver(c, {_first(c.nodes(), p): True}),
    "sat.solve": lambda c, c2, p, t: cg.sat.solve(c, {_first(c.nodes(), p): bool(p % 2)}),
    "sat.solve_bogus": lambda c, c2, p, t: cg.sat.solve(c, {"no_such_node": True}),
    "sat.model_count": lambda c, c2, p, t: cg.sat.model_count(c, {_first(c.nodes(), p): bool(p % 2)}),
    "sat.approx_model_count": lambda c, c2, p, t: cg.sat.approx_model_count(c, {_first(c.nodes(), p): True}),
    "io.circuit_to_verilog": lambda c, c2, p, t: cg.io.circuit_to_verilog(c),
    "io.circuit_to_verilog_beh": lambda c, c2, p, t: cg.io.circuit_to_verilog(c, behavioral=True),
    "io.circuit_to_bench": lambda c, c2, p, t: cg.io.circuit_to_bench(c),
    "io.to_file_v": lambda c, c2, p, t: cg.to_file(c, os.path.join(t, "o.v")),
    "io.to_file_bench": lambda c, c2, p, t: cg.to_file(c, os.path.join(t, "o.bench"), fmt="bench"),
    "io.to_file_badfmt": lambda c, c2, p, t: cg.to_file(c, os.path.join(t, "o.x"), fmt="edif"),
    "utils.lint": lambda c, c2, p, t: cg.lint(c, fail_fast=bool(p % 2), unloaded=bool(p % 3 == 0), single_input_gates=bool(p % 5 == 0)),
    "Circuit.copy": lambda c, c2, p, t: c.copy(),
    "Circuit.nodes": lambda c, c2, p, t: c.nodes(),
    "Circuit.edges": lambda c, c2, p, t: c.edges(),
    "Circuit.type": lambda c, c2, p, t: c.type(sorted(c.nodes())),
    "Circuit.filter_type": lambda c, c2, p, t: c.filter_type(["and", "buf", "input"]),
    "Circuit.fanin": lambda c, c2, p, t: c.fanin(_first(c.nodes(), p)),
    "Circuit.fanout": lambda c, c2, p, t: c.fanout(sorted(c.nodes())[: 2 + p % 3]),
    "Circuit.transitive_fanin": lambda c, c2, p, t: c.transitive_fanin(_first(c.nodes(), p)),
    "Circuit.transitive_fanout": lambda c, c2, p, t: c.transitive_fanout(_first(c.nodes(), p)),
    "Circuit.fanin_depth": lambda c, c2, p, t: c.fanin_depth(_first(c.nodes(), p)),
    "Circuit.fanout_depth": lambda c, c2, p, t: c.fanout_depth(sorted(c.nodes())[: 1 + p % 3]),
    "Circuit.paths": lambda c, c2, p, t: list(c.paths(_first(c.nodes(), p), _first(c.nodes(), p // 7))),
    "Circuit.inputs": lambda c, c2, p, t: c.inputs(),
    "Circuit.outputs": lambda c, c2, p, t: c.outputs(),
    "Circuit.io": lambda c, c2, p, t: c.io(),
    "Circuit.is_output": lambda c, c2, p, t: c.is_output(_first(c.nodes(), p)),
    "Circuit.startpoints": lambda c, c2, p, t: c.startpoints(_first(c.nodes(), p)),
    "Circuit.endpoints": lambda c, c2, p, t: c.endpoints(),
    "Circuit.reconvergent_fanout_nodes": lambda c, c2, p, t: list(c.reconvergent_fanout_nodes()),
    "Circuit.has_reconvergent_fanout": lambda c, c2, p, t: c.has_reconvergent_fanout(),
    "Circuit.is_cyclic": lambda c, c2, p, t: c.is_cyclic(),
    "Circuit.uid": lambda c, c2, p, t: c.uid(_first(c.nodes(), p)),
    "Circuit.kcuts": lambda c, c2, p, t: c.kcuts(_first(c.nodes(), p), 1 + p % 3),
    "Circuit.topo_sort": lambda c, c2, p, t: list(c.topo_sort()),
    "Circuit.dunder": lambda c, c2, p, t: (len(c), list(iter(c)), "a" in c),
    "arg.add_subcircuit": lambda c, c2, p, t: _host().add_subcircuit(c, "inst", {_first(c.inputs(), p): "hi"} if c.inputs() else None),
    "arg.add_subcircuit_bad": lambda c, c2, p, t: _host().add_subcircuit(c, "inst", {"no_such_io": "hi"}),
    "arg.fill_blackbox": lambda c, c2, p, t: _host_bb(c).fill_blackbox("inst", c),
}
NAMES = sorted(REG)
SMALL_ONLY = {"props.influence_supergates", "props.avg_sensitivity_list", "props.influence_approx_logdir", "props.influence", "props.avg_sensitivity", "props.sensitivity", "tx.sensitivity_transform", "Circuit.kcuts",
              "sat.model_count", "sat.approx_model_count", "props.signal_probability", "props.signal_probability_approx"}


def _host():
    h = cg.Circuit(name="host")
    h.add("hi", "input")
    h.add("hb", "buf", fanin="hi", output=True)
    return h


def _host_bb(c):
    h = _host()
    bb = cg.BlackBox("blk", sorted(c.inputs()), sorted(c.outputs() - c.inputs()))
    h.add_blackbox(bb, "inst")
    return h


FIXED_EDITS = [[0, 1], [4, 2], [5, 3], [10, 1], [2, 5], [3, 0], [11, 0], [6, 0], [7, 1], [8, 2], [9, 0], [1, 4]]


def _plain():
    return {"name": "p", "nodes": [["a", "input", [], False], ["b", "input", [], False], ["k", "1", [], False],
                                    ["g", "and", ["a", "b", "k"], False], ["n", "xor", ["g", "a"], True], ["o", "not", ["n"], True]],
            "bbtypes": [], "insts": []}


def _flop():
    return {"name": "f", "nodes": [["a", "input", [], False], ["clk", "input", [], False], ["qb", "buf", [], True], ["g", "nand", ["a", "qb"], True]],
            "bbtypes": [["ff", ["clk", "d"], ["q"]]], "insts": [["u0", 0, {"clk": "clk", "d": "g", "q": "qb"}]]}


def _flop_qn():
    return {"name": "f2", "nodes": [["a", "input", [], False], ["clk", "input", [], False], ["qb", "buf", [], True],
                                    ["u0_qn", "nand", ["a", "qb"], True], ["w", "not", ["u0_qn"], True]],
            "bbtypes": [["ffq", ["clk", "d"], ["q", "qn"]]], "insts": [["u0", 0, {"clk": "clk", "d": "u0_qn", "q": "qb"}]]}


def core(ctx):
    for fn in NAMES:
        yield {"fn": fn, "spec": _flop_qn(), "spec2": _plain(), "pick": 0, "edits": FIXED_EDITS[:3]}
        yield {"fn": fn, "spec": _flop_qn(), "spec2": _plain(), "pick": 1, "edits": FIXED_EDITS[:3]}
    for fn in NAMES:
        for mk in (_plain, _flop):
            yield {"fn": fn, "spec": mk(), "spec2": _plain(), "pick": 3, "edits": FIXED_EDITS}
            yield {"fn": fn, "spec": mk(), "spec2": _plain(), "pick": 5, "edits": FIXED_EDITS[:4], "raw_attrs": True}


@st.composite
def _case(draw, ctx):
    fn = draw(st.sampled_from(NAMES))
    small = fn in SMALL_ONLY
    kind = draw(st.sampled_from(["plain", "plain", "bb", "cyclic"]))
    if kind == "plain":
        spec = draw(S.circuit_spec(min_inputs=0 if draw(st.integers(0, 4)) == 0 else 1, max_inputs=3 if small else 4, min_gates=1, max_gates=6 if small else 9,
                                   max_fanin=3 if small else 4, io_outputs=True,
                                   pools=(S.BENIGN, S.ESCAPED) if draw(st.integers(0, 3)) == 0 else (S.BENIGN,)))
    elif kind == "bb":
        bpools = (S.BENIGN,) if draw(st.booleans()) else (S.BENIGN[:8], ["u0_q", "u0_qn", "u0_d", "u1_qn", "u0_nq", "u0_Y", "u0_clk"])
        spec = draw(S.circuit_spec(min_inputs=1, max_inputs=3, min_gates=1, max_gates=6, max_fanin=3, max_insts=2,
                                   unconnected_pins=draw(st.booleans()), pools=bpools))
    else:
        spec = draw(S.circuit_spec(min_inputs=0, max_inputs=2, min_gates=2, max_gates=6, max_fanin=3, cyclic=True))
    spec2 = draw(S.circuit_spec(min_inputs=1, max_inputs=3, min_gates=1, max_gates=5, max_fanin=3))
    edits = draw(st.lists(st.tuples(st.integers(0, 15), st.integers(0, 30)).map(list), min_size=1, max_size=8))
    return {"fn": fn, "spec": spec, "spec2": spec2, "pick": draw(st.integers(0, 60)), "edits": edits,
            "raw_attrs": draw(st.integers(0, 2)) == 0}


def strategy(ctx):
    return _case(ctx)


def _edit(x, edits):
    """Apply an edit script directly to circuit x. Returns True if something changed."""
    g = x.graph
    before = refsim.snapshot(x)
    for op, pk in edits:
        nodes = sorted(g.nodes)
        edges = sorted(g.edges)
        if op == 0:
            g.add_node(f"zz_new{pk}", type="and", output=False)
        elif op == 1 and nodes:
            g.remove_node(nodes[pk % len(nodes)])
        elif op == 2 and len(nodes) >= 2:
            g.add_edge(nodes[pk % len(nodes)], nodes[(pk * 7 + 1) % len(nodes)])
        elif op == 3 and edges:
            g.remove_edge(*edges[pk % len(edges)])
        elif op == 4 and nodes:
            g.nodes[nodes[pk % len(nodes)]]["type"] = "nor"
        elif op == 5 and nodes:
            n = nodes[pk % len(nodes)]
            g.nodes[n]["output"] = not g.nodes[n].get("output", False)
        elif op == 6:
            x.blackboxes[f"zz_inst{pk}"] = cg.BlackBox("zzt", ["i"], ["o"])
        elif op == 7 and x.blackboxes:
            x.blackboxes.pop(sorted(x.blackboxes)[pk % len(x.blackboxes)])
        elif op == 8 and nodes:
            nx.relabel_nodes(g, {nodes[pk % len(nodes)]: f"zz_renamed{pk}"}, copy=False)
        elif op == 9:
            x.name = f"zz_name{pk}"
        elif op == 10 and nodes:
            g.nodes[nodes[pk % len(nodes)]].update(zz_extra=pk)
        elif op == 11 and edges:
            g.edges[edges[pk % len(edges)]]["zz_w"] = pk
        elif op == 12 and x.blackboxes:
            # edits through the public API: fill an instance with a matching child
            inst = sorted(x.blackboxes)[pk % len(x.blackboxes)]
            bb_ = x.blackboxes[inst]
            child = cg.Circuit(name="zz_child")
            try:
                for i_ in sorted(bb_.inputs()):
                    child.add(i_, "input")
                for o_ in sorted(bb_.outputs()):
                    child.add(o_, "1", output=True)
            except ValueError:
                pass  # a pin listed in both directions: no matching child exists, the fill below is refused
            lib(x.fill_blackbox, inst, child)
        elif op == 13:
            lib(x.add_blackbox, cg.BlackBox("zzt2", ["i"], ["o"]), f"zz_bb{pk}")
        elif op == 14 and nodes:
            lib(x.remove, nodes[pk % len(nodes)])
        elif op == 15 and nodes:
            lib(x.set_output, nodes[pk % len(nodes)], bool(pk % 2))
    return refsim.snapshot(x) != before


def _circuits_in(res):
    out = []
    if isinstance(res, cg.Circuit):
        out.append(res)
    elif isinstance(res, (tuple, list, set)):
        for r in res:
            out += _circuits_in(r)
    elif isinstance(res, dict):
        for r in res.values():
            out += _circuits_in(r)
    return out


def _mutate_container(res):
    if isinstance(res, set):
        res.add("zz_added")
        res.discard(next(iter(res)))
    elif isinstance(res, list):
        res.append("zz_added")
        if res:
            res.pop(0)
    elif isinstance(res, dict):
        for k in list(res)[:1]:
            v = res[k]
            if isinstance(v, list):
                v.append("zz")
            elif isinstance(v, dict):
                v["zz"] = 1
            res.pop(k)
        res["zz_added"] = 1
    elif isinstance(res, tuple):
        for r in res:
            _mutate_container(r)


def check(case, ctx):
    fn = case["fn"]
    c = specs.build(case["spec"])
    c2 = specs.build(case["spec2"])
    if case.get("raw_attrs"):
        # circuits read by the fast parser or built on a raw graph have no 'output' attribute on
        # nodes that are not outputs; that is a legal circuit (is_output() treats it as False)
        for cc in (c, c2):
            for n in cc.graph.nodes:
                if not cc.graph.nodes[n].get("output"):
                    cc.graph.nodes[n].pop("output", None)
    tdir = os.path.join(ctx.tmp if ctx is not None else "/tmp", "c19")
    os.makedirs(tdir, exist_ok=True)
    snap, snap2 = refsim.snapshot(c), refsim.snapshot(c2)
    out = lib(REG[fn], c, c2, case["pick"], tdir)
    shutil.rmtree(tdir, ignore_errors=True)
    how = "returned" if out.ok else f"raised {out.type}"
    if refsim.snapshot(c) != snap:
        raise Violation(f"mutated_argument|{fn}|{'ok' if out.ok else 'raised'}", f"{fn} ({how}) modified its argument circuit")
    if refsim.snapshot(c2) != snap2:
        raise Violation(f"mutated_argument2|{fn}", f"{fn} ({how}) modified its second argument circuit")
    labels = [fn.split(".")[0], "call_" + ("ok" if out.ok else "raised")]
    nontriv = False
    if out.ok:
        res = out.value
        circs = _circuits_in(res)
        for r in circs:
            if r is c or r.graph is c.graph:
                raise Violation(f"aliases_argument|{fn}", f"{fn} returned its argument (or a circuit sharing its graph object)")
            if r.blackboxes is c.blackboxes and (c.blackboxes or True):
                raise Violation(f"aliases_registry|{fn}", f"{fn} returned a circuit sharing the blackbox registry dict of its argument")
        _mutate_container(res)
        if refsim.snapshot(c) != snap:
            raise Violation(f"container_aliases_argument|{fn}", f"mutating the value returned by {fn} changed the argument circuit")
        for r in circs:
            changed = _edit(r, case["edits"])
            nontriv = nontriv or changed
            if refsim.snapshot(c) != snap:
                raise Violation(f"edit_result_changes_argument|{fn}", f"editing the circuit returned by {fn} changed the argument")
            if refsim.snapshot(c2) != snap2:
                raise Violation(f"edit_result_changes_argument2|{fn}", f"editing the circuit returned by {fn} changed the second argument")
        rs = [refsim.snapshot(r) for r in circs]
        _edit(c, case["edits"])
        _edit(c2, case["edits"])
        for r, s0 in zip(circs, rs):
            if refsim.snapshot(r) != s0:
                raise Violation(f"edit_argument_changes_result|{fn}", f"editing the argument after {fn} changed the returned circuit")
        if circs:
            labels.append("returned_circuit")
    return {"nontrivial": bool(nontriv), "labels": labels}
