"""C11 -- sensitivity analyses agree with their definitions."""
from fractions import Fraction

from hypothesis import strategies as st

import circuitgraph as cg
from cgv import refsim, specs
from cgv import strategies as S
from cgv.harness import Violation, lib
from cgv.harness import need as _need


class _NameClash(Exception):
    """A ValueError of a transform while two of the names it generates really coincide."""


_CLASH = [False]


def need(out, tag, desc):
    if not out.ok and isinstance(out.exc, ValueError) and _CLASH[0]:
        raise _NameClash(desc)
    return _need(out, tag, desc)


def _generated_names_clash(c, n):
    """Do two of the names that sensitivity_transform / the sensitization miter derive from the circuit's own
    names coincide (orig_<x>, inv_<s>_<x>, dif_out_<s>, pc_*, sen_out / c0_<x>, c1_<x>, dif_<e>, sat), or does
    a circuit node carry such a name?  Then a ValueError is a clean rejection of a real clash."""
    g = c.graph
    allnodes = list(g.nodes)
    sp = [x for x in allnodes if g.nodes[x]["type"] == "input"]
    gen = [f"orig_{x}" for x in allnodes] + list(sp)
    gen += [f"inv_{s_}_{x}" for s_ in sp for x in allnodes] + [f"dif_out_{s_}" for s_ in sp]
    gen += [f"c0_{x}" for x in allnodes] + [f"c1_{x}" for x in allnodes] + [f"dif_{x}" for x in allnodes] + ["sat", "sen_out"]
    if len(set(gen)) != len(gen):
        return True
    return any(x.startswith(("pc_", "sen_out")) for x in allnodes)

ID = "C11"
RULE = (
    "cases: blackbox-free lint-clean acyclic circuit specs with 1..7 inputs, a node n with >= 1 "
    "startpoint in its cone (inputs, internal nodes, outputs, functionally constant nodes) and an "
    "optional endpoint subset (outputs that have n in their fan-in, or n itself). All oracles by "
    "reference simulation over all valuations: `sat` of sensitization_transform = some selected "
    "endpoint changes when n is forced to its complement; sensitize returns None iff no such valuation "
    "else a valuation over the inputs that does sensitise; dif_out_s of sensitivity_transform = flipping "
    "s flips n, sen_out bits (little endian) = number of such s; sensitivity = max of that number; "
    "influence(approx=False)[s] = exact fraction of valuations of n's startpoints where flipping s "
    "flips n; avg_sensitivity = their sum (dyadic rationals compared exactly). Non-trivial: n is not a "
    "startpoint and its sensitivity is strictly between 0 and the cone size, or the cone size is a "
    "power of two / one less, or a strict endpoint subset is used. Distinct by digest."
)
RULE += ' Added after seeded-change rounds 4-5: pools of suffix-related names; arithmetic blocks built and edited by the caller beforehand; a ValueError is a refusal only when two generated names (orig_<x>, inv_<s>_<x>, dif_out_<s>, c0_/c1_<x>, pc_*, sat) really coincide.'
ASSUMPTIONS = [
    "reference simulator cgv.refsim (with forced-node evaluation for 'flip n')",
    "pysat stand-in executes the library's SAT / model-count calls; it is not the oracle",
    "cone bounded to 7 startpoints (SAT-heavy library code under a pure-Python solver)",
]
EXHAUSTIVE_NOTE = "core: every 2- and 3-input single gate (all nodes as n), and-chains and parity trees with cone sizes 1,2,3,4,7"
EXAMPLES = {"quick": 900, "thorough": 9000}


def core(ctx):
    for t in S.NARY:
        for k in (1, 2, 3):
            nodes = [[f"i{j}", "input", [], False] for j in range(k)]
            nodes.append(["g", t, [f"i{j}" for j in range(k)], True])
            spec = {"name": "c", "nodes": nodes, "bbtypes": [], "insts": []}
            for n in ["g", "i0"]:
                yield {"spec": spec, "node": n, "endpoints": None}
            yield {"spec": spec, "node": "i0", "endpoints": ["g"]}
            yield {"spec": spec, "node": "g", "endpoints": ["g"]}
    for k in (1, 2, 3, 4, 7):
        for t in ("and", "xor"):
            nodes = [[f"i{j}", "input", [], False] for j in range(k)]
            prev = "i0"
            for j in range(1, k):
                nodes.append([f"g{j}", t, [prev, f"i{j}"], False])
                prev = f"g{j}"
            nodes.append(["o", "buf", [prev], True])
            nodes.append(["z", "and", ["o", "nz"], True])
            nodes.insert(-1, ["nz", "not", ["o"], False])
            spec = {"name": "c", "nodes": nodes, "bbtypes": [], "insts": []}
            yield {"spec": spec, "node": "o", "endpoints": None}
            yield {"spec": spec, "node": "z", "endpoints": None}


@st.composite
def _deep_spec(draw):
    """A circuit whose last chain gate depends on all k inputs (uniform cone sizes)."""
    k = draw(st.integers(1, 7))
    nodes = [[f"i{j}", "input", [], False] for j in range(k)]
    pool = [f"i{j}" for j in range(k)]
    rest = list(pool)
    idx = 0
    cur = rest.pop(0)
    while rest:
        t = draw(st.sampled_from(S.NARY))
        take = min(len(rest), draw(st.sampled_from([1, 1, 2, 3])))
        ops = [cur] + rest[:take]
        rest = rest[take:]
        if draw(st.integers(0, 3)) == 0 and len(nodes) > k:
            ops.append(draw(st.sampled_from([x[0] for x in nodes])))
            ops = list(dict.fromkeys(ops))
        cur = f"g{idx}"
        idx += 1
        nodes.append([cur, t, ops, False])
        if draw(st.integers(0, 2)) == 0:
            u = draw(st.sampled_from(S.UNARY))
            nodes.append([f"g{idx}", u, [cur], False])
            cur = f"g{idx}"
            idx += 1
    nodes.append(["o", draw(st.sampled_from(["buf", "not"])), [cur], True])
    # a side output so that endpoint subsets exist
    if draw(st.booleans()):
        nodes.append(["p", draw(st.sampled_from(S.NARY)), [cur, draw(st.sampled_from(pool))], True])
    return {"name": "c", "nodes": nodes, "bbtypes": [], "insts": []}, cur


@st.composite
def _case(draw, ctx):
    if draw(st.integers(0, 2)) == 0:
        spec, deep = draw(_deep_spec())
        names = [x[0] for x in spec["nodes"]]
        n = draw(st.sampled_from([deep, deep, "o"] + names))
        ep = draw(st.sampled_from(["none", "subset", "self", "one"]))
        return {"spec": spec, "node": n, "endpoints": ep, "pick": draw(st.lists(st.integers(0, 50), min_size=4, max_size=4)),
                "prior_blocks": draw(st.integers(0, 5)) == 0}
    mi = draw(st.sampled_from([1, 2, 3, 4, 5, 6, 7]))
    spec = draw(S.circuit_spec(min_inputs=max(1, mi - 2), max_inputs=mi, min_gates=draw(st.sampled_from([1, 3, 5])),
                               max_gates=10, max_fanin=4, io_outputs=True, consts=draw(st.booleans()),
                               min_fanin_nary=draw(st.sampled_from([1, 2, 2])),
                               # now and then names related by suffixes, as the transforms' helper names are (x / x_inv / x_pre)
                               pools=(draw(S.related_names_pool()),) if draw(st.integers(0, 3)) == 0 else (S.BENIGN,)))
    names = [x[0] for x in spec["nodes"]]
    gates = [x[0] for x in spec["nodes"] if x[1] in S.ALL_GATES]
    n = draw(st.sampled_from(names + gates + gates[-3:] * 3))
    ep = draw(st.sampled_from(["none", "subset", "self", "one"]))
    return {"spec": spec, "node": n, "endpoints": ep, "pick": draw(st.lists(st.integers(0, 50), min_size=4, max_size=4)),
            "prior_blocks": draw(st.integers(0, 5)) == 0}


def strategy(ctx):
    return _case(ctx)


def _flip_diff(c, asg, W, n, endpoints):
    full = (1 << W) - 1
    v0 = refsim.simulate(c, asg, W)
    v1 = refsim.simulate(c, asg, W, force={n: v0[n] ^ full})
    d = 0
    for e in endpoints:
        d |= v0[e] ^ v1[e]
    return d


def check(case, ctx):
    try:
        return _check(case, ctx)
    except _NameClash:
        return {"nontrivial": False, "labels": ["rejected_generated_name_clash"]}


def _check(case, ctx):
    spec = case["spec"]
    c = specs.build(spec)
    _CLASH[0] = _generated_names_clash(c, case["node"])
    if refsim.ref_lint(c):
        raise specs.SpecError("generator produced non-lint-clean circuit")
    n = case["node"]
    g = c.graph
    inputs = sorted(x for x in g.nodes if g.nodes[x]["type"] == "input")
    cone = refsim.ancestors(c, [n]) | {n}
    sp = sorted(x for x in cone if g.nodes[x]["type"] == "input")
    if not sp:
        return {"nontrivial": False, "labels": ["skipped_no_startpoint"]}
    if len(sp) > 7:
        return {"nontrivial": False, "labels": ["skipped_big_cone"]}
    outs = sorted(x for x in g.nodes if g.nodes[x].get("output"))
    snap = refsim.snapshot(c)
    labels = []
    if case.get("prior_blocks"):
        # earlier in the same program the user built arithmetic blocks of the sizes the
        # sensitivity circuit uses internally and edited them: later results must not depend on that
        for w in range(1, len(sp) + 2):
            for call in (lambda: cg.logic.adder(w), lambda: cg.logic.adder(w, carry_out=True), lambda: cg.logic.adder(w, False, True),
                         lambda: cg.logic.popcount(w), cg.logic.half_adder, cg.logic.full_adder):
                r_ = lib(call)
                if r_.ok:
                    blk = r_.value
                    for x_ in list(blk.graph.nodes)[::2]:
                        blk.graph.remove_node(x_)
                    for x_ in blk.graph.nodes:
                        blk.graph.nodes[x_]["type"] = "buf"
        labels.append("after_edited_blocks")

    # ---- sensitization_transform / sensitize, all outputs
    asg, W = refsim.std_assignment(inputs)
    full = (1 << W) - 1
    exp_sat = _flip_diff(c, asg, W, n, outs)
    m = need(lib(cg.tx.sensitization_transform, c, n), "sensitization", f"sensitization_transform(c,{n!r})")
    if set(refsim.free_nodes(m)) != set(inputs) or m.outputs() != {"sat"}:
        raise Violation("sensitization|io", f"free signals {refsim.free_nodes(m)} / outputs {sorted(m.outputs())}")
    vm = refsim.simulate(m, asg, W)
    if vm["sat"] != exp_sat:
        j = refsim.bits(vm["sat"] ^ exp_sat)[0]
        raise Violation("sensitization|sat_value", f"n={n!r}: sat={(vm['sat'] >> j) & 1} but flipping n changes an output: {(exp_sat >> j) & 1} under { {i: (asg[i] >> j) & 1 for i in inputs} }")
    r = need(lib(cg.props.sensitize, c, n), "sensitize", f"sensitize(c,{n!r})")
    if r is None:
        if exp_sat:
            raise Violation("sensitize|none_but_sensitizable", f"sensitize(c,{n!r}) returned None although a sensitising valuation exists")
        labels.append("unsensitizable")
    else:
        if not exp_sat:
            raise Violation("sensitize|spurious", f"sensitize(c,{n!r}) returned {r} although no valuation sensitises")
        if set(r) != set(inputs):
            raise Violation("sensitize|keys", f"sensitize keys {sorted(r)} != inputs {inputs}")
        j = sum((1 << i) for i, x in enumerate(inputs) if r[x])
        if not (exp_sat >> j) & 1:
            raise Violation("sensitize|wrong_witness", f"valuation {r} does not sensitise {n!r} to any output")
    # ---- endpoint subsets
    mode = case["endpoints"]
    strict = False
    if mode is not None and mode != "none":
        reach = [o for o in outs if n in refsim.ancestors(c, [o])]
        E = None
        if isinstance(mode, list):
            E = list(mode)
        elif mode == "self":
            E = [n]
        elif mode == "one" and reach:
            E = [reach[case["pick"][0] % len(reach)]]
        elif mode == "subset" and reach:
            E = sorted({reach[p % len(reach)] for p in case["pick"][: 1 + case["pick"][3] % 3]})
        if E and mode == "subset" and outs and case["pick"][2] % 3 == 0:
            # also select outputs that n cannot reach (they never change); n must reach at least one
            E = sorted(set(E) | {outs[p_ % len(outs)] for p_ in case["pick"][1:3]})
        if E and not any(o == n or n in refsim.ancestors(c, [o]) for o in E):
            E = None
        if E:
            pk = case.get("pick", [0, 0, 0, 0])
            arg = E[0] if (len(E) == 1 and pk[1] % 2 == 0) else (set(E) if pk[2] % 2 else list(E))
            arg_before = sorted(arg) if not isinstance(arg, str) else arg
            mm = need(lib(cg.tx.sensitization_transform, c, n, arg), "sensitization_ep", f"sensitization_transform(c,{n!r},{arg!r})")
            if (sorted(arg) if not isinstance(arg, str) else arg) != arg_before:
                raise Violation("sensitization_ep|mutates_collection_argument", f"the endpoints collection passed by the caller was changed: {arg_before} -> {sorted(arg)}")
            sub_inputs = sorted(x for x in (refsim.ancestors(c, E) | set(E)) if g.nodes[x]["type"] == "input")
            if set(refsim.free_nodes(mm)) != set(sub_inputs):
                raise Violation("sensitization_ep|free", f"free signals {refsim.free_nodes(mm)} != cone inputs {sub_inputs}")
            vmm = refsim.simulate(mm, {i: asg[i] for i in sub_inputs}, W)
            exp = _flip_diff(c, asg, W, n, E)
            if vmm["sat"] != exp:
                raise Violation("sensitization_ep|sat_value", f"n={n!r} endpoints={E}: sat differs from the flip definition")
            strict = set(E) != set(outs)
            labels.append("endpoint_subset" if E != [n] else "endpoint_is_n")

    # ---- sensitivity_transform
    a2, W2 = refsim.std_assignment(sp)
    full2 = (1 << W2) - 1
    sub = type("V", (), {"graph": g.subgraph(cone), "blackboxes": {}})
    base = refsim.simulate(sub, a2, W2)
    diffs = {}
    for s in sp:
        aa = dict(a2)
        aa[s] = a2[s] ^ full2
        diffs[s] = base[n] ^ refsim.simulate(sub, aa, W2)[n]
    counts = [sum((diffs[s] >> j) & 1 for s in sp) for j in range(W2)]
    st_c = need(lib(cg.tx.sensitivity_transform, c, n), "sensitivity_transform", f"sensitivity_transform(c,{n!r})")
    if set(refsim.free_nodes(st_c)) != set(sp):
        raise Violation("sensitivity_transform|free", f"free signals {refsim.free_nodes(st_c)} != startpoints {sp}")
    vs = refsim.simulate(st_c, a2, W2)
    for s in sp:
        if f"dif_out_{s}" not in vs or not st_c.graph.nodes[f"dif_out_{s}"].get("output"):
            raise Violation("sensitivity_transform|dif_out_missing", f"dif_out_{s} missing or not an output")
        if vs[f"dif_out_{s}"] != diffs[s]:
            raise Violation("sensitivity_transform|dif_out", f"dif_out_{s} differs from 'flipping {s} flips {n}'")
    sen_bits = sorted((int(x[8:]), x) for x in st_c.outputs() if x.startswith("sen_out_"))
    if [b for b, _ in sen_bits] != list(range(len(sen_bits))) or (1 << len(sen_bits)) <= len(sp):
        raise Violation("sensitivity_transform|sen_out_width", f"sen_out bits {sen_bits} cannot encode 0..{len(sp)}")
    for j in range(W2):
        got = sum(((vs[x] >> j) & 1) << b for b, x in sen_bits)
        if got != counts[j]:
            raise Violation("sensitivity_transform|sen_out", f"sen_out encodes {got}, reference count {counts[j]} (cone {len(sp)})")
    # ---- sensitivity / influence / avg_sensitivity
    sen = need(lib(cg.props.sensitivity, c, n), "sensitivity", f"sensitivity(c,{n!r})")
    if sen != max(counts):
        raise Violation("sensitivity|value", f"sensitivity(c,{n!r}) = {sen}, reference {max(counts)} (cone {len(sp)})")
    inf = need(lib(cg.props.influence, c, n, approx=False), "influence", f"influence(c,{n!r},approx=False)")
    if not isinstance(inf, dict) or set(inf) != set(sp):
        raise Violation("influence|keys", f"influence keys {sorted(inf) if isinstance(inf, dict) else inf} != startpoints {sp}")
    tot = Fraction(0)
    for s in sp:
        exp = Fraction(refsim.popcount(diffs[s]), W2)
        tot += exp
        if Fraction(inf[s]) != exp:
            raise Violation("influence|value", f"influence(c,{n!r})[{s!r}] = {inf[s]}, reference {exp}")
    av = need(lib(cg.props.avg_sensitivity, c, n, approx=False), "avg_sensitivity", f"avg_sensitivity(c,{n!r},approx=False)")
    if Fraction(av) != tot:
        raise Violation("avg_sensitivity|value", f"avg_sensitivity(c,{n!r}) = {av}, reference {tot}")
    # list form: one result per node, each over that node's own startpoints
    others = [x for x in sorted(g.nodes) if x != n and 1 <= len([y for y in (refsim.ancestors(c, [x]) | {x}) if g.nodes[y]["type"] == "input"]) <= 5]
    if others:
        m2 = others[(len(sp) * 5 + len(outs)) % len(others)]
        cone2 = refsim.ancestors(c, [m2]) | {m2}
        sp2 = sorted(x for x in cone2 if g.nodes[x]["type"] == "input")
        b2, W3 = refsim.std_assignment(sp2)
        sub2 = type("V", (), {"graph": g.subgraph(cone2), "blackboxes": {}})
        base2 = refsim.simulate(sub2, b2, W3)
        exp2 = {}
        for s_ in sp2:
            bb_ = dict(b2)
            bb_[s_] = b2[s_] ^ ((1 << W3) - 1)
            exp2[s_] = Fraction(refsim.popcount(base2[m2] ^ refsim.simulate(sub2, bb_, W3)[m2]), W3)
        both = need(lib(cg.props.influence, c, [n, m2], approx=False), "influence_list", f"influence(c,[{n!r},{m2!r}],approx=False)")
        if not isinstance(both, dict) or set(both) != {n, m2}:
            raise Violation("influence_list|keys", f"influence with a node list returned keys {sorted(both) if isinstance(both, dict) else both}")
        for node_, exp_, sp_ in ((n, {s_: Fraction(refsim.popcount(diffs[s_]), W2) for s_ in sp}, sp), (m2, exp2, sp2)):
            got_ = both[node_]
            if set(got_) != set(sp_) or any(Fraction(got_[s_]) != exp_[s_] for s_ in sp_):
                raise Violation("influence_list|value", f"influence(c,[{n!r},{m2!r}])[{node_!r}] = {got_}, reference {exp_}")
        avl = need(lib(cg.props.avg_sensitivity, c, [n, m2], approx=False), "avg_sensitivity_list", "avg_sensitivity with a node list")
        if set(avl) != {n, m2} or Fraction(avl[n]) != tot or Fraction(avl[m2]) != sum(exp2.values()):
            raise Violation("avg_sensitivity_list|value", f"avg_sensitivity(c,[{n!r},{m2!r}]) = {avl}")
        # a list may name a node more than once; every named node still gets its own total
        rep = [n, n, m2, n] if n != m2 else [n, n]
        avr = need(lib(cg.props.avg_sensitivity, c, rep, approx=False), "avg_sensitivity_list", "avg_sensitivity with a node list that repeats a node")
        if set(avr) != {n, m2} or Fraction(avr[n]) != tot or Fraction(avr[m2]) != sum(exp2.values()):
            raise Violation("avg_sensitivity_list|repeated", f"avg_sensitivity(c,{rep}) = {avr}, expected {{{n!r}: {tot}, {m2!r}: {sum(exp2.values())}}}")
        labels.append("list_form")
    if refsim.snapshot(c) != snap:
        raise Violation("sensitivity|mutates_argument", "argument modified")
    k = len(sp)
    nontriv = (n not in sp and 0 < max(counts) < k) or (k & (k - 1) == 0) or ((k + 1) & k == 0) or strict
    labels.append(f"cone_{k}")
    if n in sp:
        labels.append("n_is_input")
    if max(counts) == 0:
        labels.append("constant_node")
    return {"nontrivial": bool(nontriv), "labels": labels}
