"""C17 -- supergate decomposition covers the circuit with independent-input blocks."""
from hypothesis import strategies as st

import circuitgraph as cg
from cgv import refsim, specs
from cgv import strategies as S
from cgv.harness import Violation, lib, need

ID = "C17"
RULE = (
    "cases: blackbox-free lint-clean acyclic circuit specs: trees, heavily reconvergent cones (few inputs, "
    "many gates), several outputs sharing logic, gates with fan-in 1..4, with and without constants; "
    "single-output circuits for construct_supercircuit=True. Oracle on tx.supergates(c): every supergate "
    "has exactly one output; the supergates' internal nodes cover every gate in the cones of the outputs; "
    "the union of the supergates' internal wiring is one consistent circuit c2 in which every original "
    "node computes the same truth table as in c and every original gate with fan-in <= 2 has exactly its "
    "original type and fan-in; inside a supergate every non-input node has all of its c2 fan-in; the "
    "inputs of one supergate have pairwise disjoint ({i} u ancestors(i)) in c2; the list order is "
    "topological. Super-circuit: filling every sg_* blackbox with its supergate gives a circuit with the "
    "same inputs whose output has the truth table of c. Non-trivial: >= 2 supergates or a reconvergent "
    "cone. Distinct by digest."
)
RULE += ' Added after seeded-change rounds 4-5: circuits with 5..9 inputs and 12..28 gates (deeper nesting of supergates).'
ASSUMPTIONS = [
    "reference simulator cgv.refsim",
    "the fan-in-limited circuit is reconstructed from the supergates themselves and validated semantically against c (limit_fanin itself is property C05)",
    "filling uses Circuit.fill_blackbox (property C06)",
]
EXHAUSTIVE_NOTE = "core: the 13-gate example of the upstream test, balanced trees of depth 1..3, diamonds, two outputs sharing logic"
EXAMPLES = {"quick": 1500, "thorough": 30000}


def _example():
    n = [[f"i{j}", "input", [], False] for j in range(7)]
    n += [["g7", "and", ["i0", "i1"], False], ["g8", "or", ["i1", "i2"], False], ["g9", "nand", ["g7", "g8"], False],
          ["g10", "xor", ["g8", "i3"], False], ["g11", "and", ["g9", "g10"], False], ["g12", "or", ["i4", "i5"], False],
          ["g13", "nor", ["g12", "i6"], False], ["g14", "and", ["g12", "g13"], False], ["g15", "or", ["g11", "g14"], False],
          ["g16", "not", ["g15"], False], ["g17", "and", ["g16", "g9"], False], ["g18", "xor", ["g17", "i0"], False],
          ["g19", "or", ["g18", "g15"], True]]
    return {"name": "ex", "nodes": n, "bbtypes": [], "insts": []}


def _tree(depth, t):
    nodes = []
    leaves = 1 << depth
    for j in range(leaves):
        nodes.append([f"i{j}", "input", [], False])
    cur = [f"i{j}" for j in range(leaves)]
    lvl = 0
    while len(cur) > 1:
        nxt = []
        for j in range(0, len(cur), 2):
            nm = f"t{lvl}x{j // 2}"
            nodes.append([nm, t, [cur[j], cur[j + 1]], False])
            nxt.append(nm)
        cur = nxt
        lvl += 1
    nodes[-1][3] = True
    return {"name": "tree", "nodes": nodes, "bbtypes": [], "insts": []}


def _delay_line(n):
    nodes = [["a", "input", [], False], ["b", "input", [], False]]
    prev = "a"
    for i in range(n):
        nodes.append([f"d{i}", "buf" if i % 3 else "not", [prev], False])
        prev = f"d{i}"
    nodes.append(["o", "and", [prev, "b"], False])
    nodes.append(["p", "xor", ["o", "a"], True])
    return {"name": "dl", "nodes": nodes, "bbtypes": [], "insts": []}


def core(ctx):
    for n in (40, 1500):
        yield {"spec": _delay_line(n), "superc": False}
        yield {"spec": _delay_line(n), "superc": True}
        # the chain's source does not reconverge: the whole run sits inside one supergate
        dl = _delay_line(n)
        dl["nodes"][-1] = ["p", "xor", ["o", "q"], True]
        dl["nodes"].insert(-1, ["e", "input", [], False])
        dl["nodes"].insert(-1, ["q", "or", ["b", "e"], False])
        yield {"spec": dl, "superc": False}
        yield {"spec": dl, "superc": True}
    yield {"spec": _example(), "superc": True}
    yield {"spec": _example(), "superc": False}
    for d in (1, 2, 3):
        for t in ("and", "xor", "nor"):
            yield {"spec": _tree(d, t), "superc": False}
            yield {"spec": _tree(d, t), "superc": True}
    dia = {"name": "d", "nodes": [["a", "input", [], False], ["b", "input", [], False], ["l", "and", ["a", "b"], False],
                                   ["r", "or", ["a", "b"], False], ["o", "xor", ["l", "r"], True], ["p", "nand", ["l", "a"], True]],
           "bbtypes": [], "insts": []}
    yield {"spec": dia, "superc": False}
    for v in (0, 1, 2):
        yield {"spec": _mutual(v), "superc": False}


def _mutual(variant):
    """Two outputs, each of which has the other's shared sub-function inside its supergate: p = f(h1, h2) and
    q = f(h3, h4) are built on heads of reconvergent blocks (no primary input of their own); p reconverges inside
    output B and is a clean cut point of output A, q the other way round (F26)."""
    nodes = [[n, "input", [], False] for n in ("a", "b", "d", "e", "f", "g", "h", "i")]
    for hn, (x, y) in (("h1", ("a", "b")), ("h2", ("d", "e")), ("h3", ("f", "g")), ("h4", ("h", "i"))):
        nodes += [[hn + "_m", "and", [x, y], False], [hn + "_o", "or", [x, y], False], [hn, "xor", [hn + "_m", hn + "_o"], False]]
    nodes += [["p", "xor", ["h1", "h2"], False], ["q", "xor" if variant != 2 else "nand", ["h3", "h4"], False]]
    nodes += [["t1", "or", ["p", "h3"], False], ["A", "xor", ["t1", "q"], True]]
    if variant == 0:
        nodes += [["t2", "xor", ["p", "q"], False], ["t3", "and", ["p", "h1"], False], ["t4", "or", ["t2", "t3"], False], ["B", "not", ["t4"], True]]
    else:
        nodes += [["t3", "and", ["q", "h1"], False], ["B", "xor", ["t3", "p"], True]]
    return {"name": "mutual", "nodes": nodes, "bbtypes": [], "insts": []}


@st.composite
def _case(draw, ctx):
    shape = draw(st.sampled_from(["reconv", "reconv", "wide", "multi", "single", "large", "shared"]))
    if shape == "shared":
        # several outputs built on a few shared sub-functions that themselves sit on heads of reconvergent blocks
        nh = draw(st.integers(2, 4))
        nodes = [[f"x{i}", "input", [], False] for i in range(2 * nh)]
        heads = []
        for i in range(nh):
            a_, b_ = f"x{2 * i}", f"x{2 * i + 1}"
            t1, t2, t3 = (draw(st.sampled_from(S.NARY)) for _ in range(3))
            nodes += [[f"h{i}_m", t1, [a_, b_], False], [f"h{i}_o", t2, [a_, b_], False], [f"h{i}", t3, [f"h{i}_m", f"h{i}_o"], False]]
            heads.append(f"h{i}")
        shared = []
        for k in range(draw(st.integers(1, 3))):
            ops = draw(st.lists(st.sampled_from(heads), min_size=2, max_size=2, unique=True))
            nodes.append([f"s{k}", draw(st.sampled_from(S.NARY)), ops, False])
            shared.append(f"s{k}")
        pool_ = heads + shared
        for o in range(draw(st.integers(2, 3))):
            cur = draw(st.sampled_from(shared))
            for j in range(draw(st.integers(1, 3))):
                other = draw(st.sampled_from(pool_))
                nm = f"o{o}_{j}"
                nodes.append([nm, draw(st.sampled_from(S.NARY)), [cur, other] if cur != other else [cur], False])
                cur = nm
            nodes[-1][3] = True
        spec = {"name": "c", "nodes": nodes, "bbtypes": [], "insts": []}
        if draw(st.booleans()):
            spec["nodes"] = list(draw(st.permutations(nodes)))
        return {"spec": spec, "superc": False, "prelimit": 0}
    if shape == "large":
        # deeper nesting of supergates needs more room: 5..9 inputs, up to 28 gates, 1..3 outputs
        spec = draw(S.circuit_spec(min_inputs=5, max_inputs=9, min_gates=12, max_gates=28, max_fanin=draw(st.sampled_from([2, 2, 3])),
                                   consts=False, min_fanin_nary=2, outputs=draw(st.sampled_from(["sinks+random", "random"])),
                                   single_output=draw(st.integers(0, 2)) == 0))
    elif shape == "reconv":
        spec = draw(S.circuit_spec(min_inputs=1, max_inputs=3, min_gates=3, max_gates=10, max_fanin=draw(st.sampled_from([2, 2, 3, 4])),
                                   consts=draw(st.booleans()), single_output=draw(st.booleans()), min_fanin_nary=2))
    elif shape == "wide":
        spec = draw(S.circuit_spec(min_inputs=3, max_inputs=7, min_gates=2, max_gates=8, max_fanin=draw(st.sampled_from([2, 3, 4])),
                                   consts=False, single_output=draw(st.booleans())))
    elif shape == "multi":
        spec = draw(S.circuit_spec(min_inputs=2, max_inputs=4, min_gates=3, max_gates=10, max_fanin=2, io_outputs=draw(st.booleans())))
    else:
        spec = draw(S.circuit_spec(min_inputs=1, max_inputs=5, min_gates=1, max_gates=9, max_fanin=3, single_output=True))
    nout = sum(1 for x in spec["nodes"] if x[3])
    return {"spec": spec, "superc": nout == 1 and draw(st.booleans()),
            "prelimit": draw(st.sampled_from([0, 0, 0, 3, 4]))}


def strategy(ctx):
    return _case(ctx)


def _helper(name, orig=None):
    return "_limit_fanin_" in name and (orig is None or name not in orig)


def check(case, ctx):
    spec = case["spec"]
    c = specs.build(spec)
    if refsim.ref_lint(c):
        raise specs.SpecError("generator produced non-lint-clean circuit")
    if case.get("prelimit"):
        # the argument is itself the output of an earlier limit_fanin(c, k>2): a legal circuit that
        # already contains *_limit_fanin_* names
        c = need(lib(cg.tx.limit_fanin, c, case["prelimit"]), "prelimit", "limit_fanin before supergates")
        if refsim.ref_lint(c):
            raise Violation("prelimit|lint", "limit_fanin produced a non-lint-clean circuit")
    g = c.graph
    snap = refsim.snapshot(c)
    outs = sorted(c.outputs())
    inputs = sorted(c.inputs())
    asg, W = refsim.std_assignment(inputs)
    ref = refsim.simulate(c, asg, W)
    labels = []
    if case["superc"]:
        r = need(lib(cg.tx.supergates, c, construct_supercircuit=True), "supergates_superc", "supergates(c, True)")
        if refsim.snapshot(c) != snap:
            raise Violation("supergates|mutates_argument", "argument modified")
        if not (isinstance(r, tuple) and len(r) == 2):
            raise Violation("superc|return", "expected (circuit, map)")
        superc, sgmap = r
        if set(superc.inputs()) != set(inputs):
            raise Violation("superc|inputs", f"super-circuit inputs {sorted(superc.inputs())} != {inputs}")
        if set(superc.blackboxes) != set(sgmap):
            raise Violation("superc|map", "map keys differ from the blackbox instances of the super-circuit")
        bad = refsim.ref_lint(superc)
        if bad:
            raise Violation("superc|lint", f"super-circuit not lint-clean: {bad[:3]}")
        filled = superc.copy()
        for name in sorted(sgmap):
            need(lib(filled.fill_blackbox, name, sgmap[name]), "superc_fill", f"fill_blackbox({name!r}, supergate)")
        if filled.blackboxes:
            raise Violation("superc|fill", "blackboxes remain after filling every supergate")
        if set(filled.outputs()) != set(outs):
            raise Violation("superc|outputs", f"outputs {sorted(filled.outputs())} != {outs}")
        free = refsim.free_nodes(filled)
        if set(free) != set(inputs):
            raise Violation("superc|free", f"filled super-circuit has free signals {sorted(set(free) ^ set(inputs))}")
        val = refsim.simulate(filled, asg, W)
        for o in outs:
            if val[o] != ref[o]:
                j = refsim.bits(val[o] ^ ref[o])[0]
                raise Violation("superc|function", f"filled super-circuit output {o!r} = {(val[o] >> j) & 1}, original {(ref[o] >> j) & 1}")
        labels.append("supercircuit")
        sgs = list(sgmap.values())
        nontriv = len(sgs) >= 2
        return {"nontrivial": bool(nontriv), "labels": labels + [f"n_sg_{min(len(sgs), 5)}"]}

    sgs = need(lib(cg.tx.supergates, c), "supergates", "supergates(c)")
    if refsim.snapshot(c) != snap:
        raise Violation("supergates|mutates_argument", "argument modified")
    if not isinstance(sgs, list):
        raise Violation("supergates|return", f"returned {type(sgs).__name__}")
    # reconstruct c2 from the supergates
    internal = {}  # node -> (type, frozenset(fanin))
    produced_at = {}
    for idx, sg in enumerate(sgs):
        so = sorted(sg.outputs())
        if len(so) != 1:
            raise Violation("supergates|outputs", f"supergate {idx} has outputs {so}")
        sgin = set(sg.inputs())
        for n in sg.graph.nodes:
            t = sg.graph.nodes[n]["type"]
            if n in sgin:
                if sg.graph.pred[n]:
                    raise Violation("supergates|input_driven", f"supergate input {n!r} has fan-in")
                continue
            rec = (t, frozenset(sg.graph.pred[n]))
            if n in internal and internal[n] != rec:
                raise Violation("supergates|inconsistent_wiring", f"node {n!r} wired differently in two supergates")
            internal[n] = rec
            produced_at.setdefault(n, idx)
    # every original gate in the output cones is covered
    cone = set()
    for o in outs:
        cone |= refsim.ancestors(c, [o]) | {o}
    for n in sorted(cone):
        t = g.nodes[n]["type"]
        if t in refsim.GATES and n not in internal:
            raise Violation("supergates|not_covered", f"gate {n!r} in the cone of the outputs is in no supergate")
    # internal wiring = the (fan-in limited) circuit
    import networkx as nx

    c2g = nx.DiGraph()
    for n, (t, fi) in internal.items():
        c2g.add_node(n, type=t, output=False)
    for n, (t, fi) in internal.items():
        for f in fi:
            if f not in c2g:
                if f in g.nodes and g.nodes[f]["type"] == "input":
                    c2g.add_node(f, type="input", output=False)
                else:
                    raise Violation("supergates|dangling", f"fan-in {f!r} of {n!r} is neither a primary input nor produced by a supergate")
            c2g.add_edge(f, n)
    for i in inputs:
        if i not in c2g:
            c2g.add_node(i, type="input", output=False)
    c2 = type("V", (), {"graph": c2g, "blackboxes": {}, "name": "c2"})
    if refsim.has_cycle(c2):
        raise Violation("supergates|cyclic", "union of the supergates is cyclic")
    for n, (t, fi) in internal.items():
        if _helper(n, g.nodes):
            continue
        if n not in g.nodes:
            raise Violation("supergates|foreign_node", f"supergates contain unknown node {n!r}")
        if t != g.nodes[n]["type"]:
            raise Violation("supergates|type", f"node {n!r} has type {t!r} in its supergate, {g.nodes[n]['type']!r} in the circuit")
        if len(g.pred[n]) <= 2 and set(fi) != set(g.pred[n]):
            raise Violation("supergates|wiring", f"node {n!r} fan-in {sorted(fi)} differs from the circuit's {sorted(g.pred[n])}")
        if len(fi) > 2:
            raise Violation("supergates|fanin_limit", f"node {n!r} has fan-in {len(fi)} inside a supergate")
    v2 = refsim.simulate(c2, asg, W)
    for n in internal:
        if not _helper(n, g.nodes) and v2[n] != ref[n]:
            raise Violation("supergates|function", f"node {n!r} computes a different function in the supergate circuit")
    # inside a supergate every non-input node has all of its fan-in
    for idx, sg in enumerate(sgs):
        sgin = set(sg.inputs())
        for n in sg.graph.nodes:
            if n in sgin:
                continue
            if set(sg.graph.pred[n]) != set(c2g.pred[n]):
                raise Violation("supergates|partial_fanin", f"supergate {idx}: node {n!r} lacks part of its fan-in")
    # disjoint transitive fan-in of the inputs of one supergate
    reconv = False
    for idx, sg in enumerate(sgs):
        ins = sorted(sg.inputs())
        cones = {i: refsim.ancestors(c2, [i]) | {i} for i in ins}
        for a in range(len(ins)):
            for b in range(a + 1, len(ins)):
                common = cones[ins[a]] & cones[ins[b]]
                if common:
                    raise Violation(
                        "supergates|inputs_share_fanin",
                        f"supergate {idx} (output {sorted(sg.outputs())}): inputs {ins[a]!r} and {ins[b]!r} share transitive fan-in {sorted(common)[:4]}",
                    )
        if len(sg.graph.nodes) - len(ins) >= 2 and any(len(sg.graph.succ[n]) >= 2 for n in sg.graph.nodes):
            reconv = True
    # topological order
    for idx, sg in enumerate(sgs):
        for i in sg.inputs():
            if i in g.nodes and g.nodes[i]["type"] == "input":
                continue
            if i not in produced_at:
                raise Violation("supergates|input_unproduced", f"supergate {idx} input {i!r} is produced by no supergate")
            if not any(i in s2.graph.nodes and i not in s2.inputs() for s2 in sgs[:idx]):
                raise Violation("supergates|order", f"supergate {idx} uses {i!r} before the supergate producing it")
    labels.append(f"n_sg_{min(len(sgs), 5)}")
    if reconv:
        labels.append("reconvergent_supergate")
    if any(_helper(n, g.nodes) for n in internal):
        labels.append("fanin_limited")
    return {"nontrivial": len(sgs) >= 2 or reconv, "labels": labels}
