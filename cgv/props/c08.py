"""C08 -- model_count / signal_probability / approxmc DIMACS instance are exact."""
import os
import shutil
from fractions import Fraction

from hypothesis import strategies as st

import circuitgraph as cg
from cgv import refsim, specs
from cgv import strategies as S
from cgv.harness import HarnessError, Violation, lib, need

ID = "C08"
RULE = (
    "cases: lint-clean circuit specs, acyclic and cyclic, with/without blackbox pins and constants, 0..9 "
    "startpoints, assumption sets on any nodes (contradictory, internal, empty). (count) "
    "sat.model_count(c,A) vs the number of startpoint valuations that extend to a consistent valuation "
    "agreeing with A (reference: bit-parallel enumeration of all node valuations for <= 12 nodes, truth "
    "tables for larger acyclic circuits); (prob) props.signal_probability(c,n,approx=False) vs exact "
    "fraction ones/2^|startpoints of n| for every kind of node n with a blackbox-free cone; (approx) "
    "approx_model_count in default mode with the vendored exact counter: the captured DIMACS file is "
    "re-counted by the check's own enumeration (models projected on the 'c ind' set), 'c ind' must be "
    "exactly the startpoint variables, and the returned value must equal the reference count. "
    "Non-trivial: 0 < count < 2^|startpoints|, or cyclic circuit where some startpoint valuation has 0 "
    "or >= 2 consistent extensions, or a bb_output among the startpoints, or n's cone strictly smaller "
    "than the circuit. Distinct by digest."
)
RULE += ' Added after seeded-change rounds 4-5: assumption values as bools and 0/1 ints; the DIMACS problem line must declare exactly the clauses written; parity-heavy circuits.'
ASSUMPTIONS = [
    "reference semantics cgv.refsim",
    "the pysat stand-in executes the library's enumeration loop; the approxmc stand-in is an exact projected counter; neither is the oracle",
    "use_xor_clauses=True is outside the property and not exercised",
]
EXHAUSTIVE_NOTE = "core: single gates of every type with 1..3 inputs (all single-node assumptions), 2-node rings, a blackbox feeding one gate"
EXAMPLES = {"quick": 450, "thorough": 9000}


def core(ctx):
    for t in ("xor", "xnor", "and"):
        for k in (5, 6, 7, 9):
            # wide gates: compare the gate with a chain of 2-input gates of the same family
            nodes = [[f"i{j}", "input", [], False] for j in range(k)]
            nodes.append(["g", t, [f"i{j}" for j in range(k)], True])
            base = {"xor": "xor", "xnor": "xor", "and": "and"}[t]
            prev = "i0"
            for j in range(1, k):
                nodes.append([f"h{j}", base, [prev, f"i{j}"], False])
                prev = f"h{j}"
            nodes.append(["ref", "not" if t == "xnor" else "buf", [prev], True])
            nodes.append(["diff", "xor", ["g", "ref"], True])
            spec = {"name": "c", "nodes": nodes, "bbtypes": [], "insts": []}
            yield {"kind": "count", "spec": spec, "assume": [["diff", True]]}
            yield {"kind": "count", "spec": spec, "assume": [["g", True], ["i0", True], ["i1", False]]}
            yield {"kind": "prob", "spec": spec, "node": "diff"}
            yield {"kind": "approx", "spec": spec, "assume": [["diff", True]]}
    # long inverter / buffer chains: the DIMACS file gets several thousand clause lines
    for n, rev in ((700, False), (2200, False), (2200, True), (4300, False)):
        nodes = [["a", "input", [], False], ["b", "input", [], False]]
        prev = "a"
        for j in range(n):
            nodes.append([f"n{j}", "not" if j % 3 else "buf", [prev], False])
            prev = f"n{j}"
        nodes.append(["y", "xor", [prev, "b"], True])
        if rev:
            nodes = nodes[::-1]
        yield {"kind": "approx", "spec": {"name": "c", "nodes": nodes, "bbtypes": [], "insts": []}, "assume": [["y", True]] if n != 700 else []}
    for t in S.NARY:
        for k in (1, 2, 3):
            nodes = [[f"i{j}", "input", [], False] for j in range(k)]
            nodes.append(["g", t, [f"i{j}" for j in range(k)], True])
            spec = {"name": "c", "nodes": nodes, "bbtypes": [], "insts": []}
            for a in ([], [["g", True]], [["g", False]], [["g", True], ["i0", False]]):
                yield {"kind": "count", "spec": spec, "assume": a}
            yield {"kind": "prob", "spec": spec, "node": "g"}
            yield {"kind": "approx", "spec": spec, "assume": [["g", True]]}
    for ring in (["not", "not"], ["not", "buf"], ["buf", "buf"], ["not", "not", "not"]):
        names = [f"r{i}" for i in range(len(ring))]
        nodes = [["a", "input", [], False]] + [[names[i], ring[i], [names[i - 1]], i == 0] for i in range(len(ring))]
        spec = {"name": "c", "nodes": nodes, "bbtypes": [], "insts": []}
        yield {"kind": "count", "spec": spec, "assume": []}
        yield {"kind": "approx", "spec": spec, "assume": []}
    spec = {
        "name": "c",
        "nodes": [["a", "input", [], False], ["o", "buf", [], False], ["g", "and", ["a", "o"], True]],
        "bbtypes": [["ff", ["d"], ["q"]]],
        "insts": [["u0", 0, {"d": "g", "q": "o"}]],
    }
    for a in ([], [["g", True]], [["u0.d", False]], [["u0.q", True], ["g", True]]):
        yield {"kind": "count", "spec": spec, "assume": a}
        yield {"kind": "approx", "spec": spec, "assume": a}


@st.composite
def _case(draw, ctx):
    kind = draw(st.sampled_from(["count", "count", "count", "count_cyc", "count_cyc", "prob", "prob", "approx", "approx", "approx_wide"]))
    if kind == "approx_wide":
        # many startpoints, few gates: the sampling-set declaration gets long
        spec = draw(S.circuit_spec(min_inputs=9, max_inputs=11, min_gates=1, max_gates=3, max_fanin=3, consts=False,
                                   max_insts=draw(st.sampled_from([0, 0, 1]))))
        return {"kind": "approx", "spec": spec, "assume": []}
    if kind == "count_cyc":
        spec = draw(S.circuit_spec(min_inputs=0, max_inputs=3, min_gates=2, max_gates=7, max_fanin=3,
                                   cyclic=True, max_insts=draw(st.sampled_from([0, 0, 1]))))
        kind = draw(st.sampled_from(["count", "count", "approx"]))
    elif kind == "prob":
        spec = draw(S.circuit_spec(min_inputs=1, max_inputs=6, min_gates=1, max_gates=10, max_fanin=4,
                                   max_insts=draw(st.sampled_from([0, 0, 0, 1]))))
    elif draw(st.integers(0, 4)) == 0:
        # parity-heavy circuits over few nets: wide xor/xnor gates that share operand pairs
        spec = draw(S.circuit_spec(min_inputs=2, max_inputs=4, min_gates=2, max_gates=6, max_fanin=5,
                                   types=["xor", "xnor", "xor", "xnor", "and", "or", "not"], consts=False, min_fanin_nary=2))
    else:
        big = draw(st.booleans())
        spec = draw(S.circuit_spec(min_inputs=0, max_inputs=6 if big else 4, min_gates=1,
                                   max_gates=12 if big else 6, max_fanin=7,
                                   max_insts=draw(st.sampled_from([0, 0, 1, 2]))))
    names = [x[0] for x in spec["nodes"]]
    pins = []
    for iname, ti, conns in spec["insts"]:
        for p in spec["bbtypes"][ti][1] + spec["bbtypes"][ti][2]:
            pins.append(f"{iname}.{p}")
    if kind == "prob":
        return {"kind": "prob", "spec": spec, "node": draw(st.sampled_from(names))}
    allnodes = names + pins
    n_assume = min(draw(st.sampled_from([0, 0, 1, 1, 2, 3])), len(allnodes))
    assumed = draw(st.lists(st.sampled_from(allnodes), min_size=n_assume, max_size=n_assume, unique=True))
    vals = draw(st.lists(st.sampled_from([False, True, False, True, 0, 1]), min_size=n_assume, max_size=n_assume))
    return {"kind": kind, "spec": spec, "assume": [[n, v] for n, v in zip(assumed, vals)]}


def strategy(ctx):
    return _case(ctx)


def _ref_count(c, A):
    """(count, n_startpoints, flags)"""
    g = c.graph
    sp = sorted(n for n in g.nodes if g.nodes[n]["type"] in ("input", "bb_output"))
    others = sorted(n for n in g.nodes if n not in sp)
    flags = set()
    if any(g.nodes[n]["type"] == "bb_output" for n in sp):
        flags.add("bb_output_startpoint")
    cyc = refsim.has_cycle(c)
    if len(g.nodes) <= 13:
        order = sp + others
        _, ok = refsim.consistent_mask(c, order)
        k = len(order)
        full = (1 << (1 << k)) - 1
        m = ok
        for n, v in A.items():
            p = refsim.pattern(order.index(n), k)
            m &= p if v else (p ^ full)
        chunk = 1 << len(sp)
        cm = (1 << chunk) - 1

        def project(x):
            r = 0
            while x:
                r |= x & cm
                x >>= chunk
            return r

        cnt = refsim.popcount(project(m))
        if cyc:
            # number of extensions per startpoint valuation
            tot = refsim.popcount(ok)
            proj = refsim.popcount(project(ok))
            if proj < chunk or tot > proj:
                flags.add("cyclic_multi_or_no_stable_state")
        return cnt, len(sp), flags
    if cyc:
        return None, len(sp), flags
    asg, W = refsim.std_assignment(sp)
    val = refsim.simulate(c, asg, W)
    full = (1 << W) - 1
    m = full
    for n, v in A.items():
        m &= val[n] if v else (val[n] ^ full)
    return refsim.popcount(m), len(sp), flags


def _parse_dimacs(path):
    ind = None
    clauses = []
    nv = None
    declared = []
    with open(path) as f:
        for line in f:
            line = line.strip()
            if not line:
                continue
            if line.startswith("c ind"):
                toks = [int(t) for t in line.split()[2:]]
                if toks[-1:] != [0]:
                    raise Violation("approx|dimacs", "c ind line not 0-terminated")
                ind = toks[:-1]
            elif line.startswith("c"):
                continue
            elif line.startswith("p"):
                parts = line.split()
                if len(parts) != 4 or parts[1] != "cnf":
                    raise Violation("approx|dimacs_header", f"malformed problem line {line!r}")
                nv, ncl = int(parts[2]), int(parts[3])
                declared.append(ncl)
            else:
                toks = [int(t) for t in line.split()]
                if toks[-1:] != [0]:
                    raise Violation("approx|dimacs", f"clause line not 0-terminated: {line}")
                clauses.append(toks[:-1])
    if len(declared) != 1 or declared[0] != len(clauses):
        raise Violation("approx|dimacs_header", f"problem line declares {declared} clauses, the file has {len(clauses)}")
    return ind, nv, clauses


def _count_dimacs(ind, nv, clauses):
    used = sorted({abs(l) for cl in clauses for l in cl} | set(ind))
    if any(v > nv for v in used):
        raise Violation("approx|dimacs", "variable above the declared count")
    # order: ind vars first
    rest = [v for v in used if v not in ind]
    order = list(ind) + rest
    k = len(order)
    if k > 20:
        return None
    pos = {v: i for i, v in enumerate(order)}
    W = 1 << k
    full = (1 << W) - 1
    pat = {v: refsim.pattern(pos[v], k) for v in order}
    sat = full
    for cl in clauses:
        acc = 0
        for l in cl:
            acc |= pat[abs(l)] if l > 0 else (pat[abs(l)] ^ full)
        sat &= acc
    chunk = 1 << len(ind)
    cm = (1 << chunk) - 1
    r = 0
    while sat:
        r |= sat & cm
        sat >>= chunk
    return refsim.popcount(r)


def check(case, ctx):
    spec = case["spec"]
    c = specs.build(spec)
    if refsim.ref_lint(c):
        raise specs.SpecError("generator produced non-lint-clean circuit")
    kind = case["kind"]
    stt = specs.spec_stats(spec)
    labels = [kind]
    if refsim.has_cycle(c):
        labels.append("cyclic")
    if stt["has_bb"]:
        labels.append("has_blackbox")
    if kind in ("count", "approx"):
        A = {n: v for n, v in case["assume"]}  # bools and 0/1 ints, as documented (dict of str:int)
        exp, nsp, flags = _ref_count(c, A)
        if exp is None or nsp > 12:
            return {"nontrivial": False, "labels": labels + ["skipped_too_big"]}
        labels += sorted(flags)
        if kind == "count":
            got = need(lib(cg.sat.model_count, c, dict(A)) if A else lib(cg.sat.model_count, c),
                       "model_count", f"model_count(c,{A})")
            if got != exp:
                raise Violation(
                    "model_count|" + ("over" if got > exp else "under"),
                    f"model_count(c,{A}) = {got}, reference {exp} of 2^{nsp} startpoint valuations",
                )
        else:
            cap = os.path.join(ctx.tmp, "cap")
            shutil.rmtree(cap, ignore_errors=True)
            os.makedirs(cap)
            os.environ["CGV_APPROXMC_CAPTURE"] = cap
            try:
                out = lib(cg.sat.approx_model_count, c, dict(A)) if A else lib(cg.sat.approx_model_count, c)
            finally:
                os.environ.pop("CGV_APPROXMC_CAPTURE", None)
            got = need(out, "approx", f"approx_model_count(c,{A})")
            files = sorted(f for f in os.listdir(cap) if f.endswith(".cnf"))
            if len(files) != 1:
                raise HarnessError(f"expected one captured DIMACS file, got {files}")
            ind, nv, clauses = _parse_dimacs(os.path.join(cap, files[0]))
            shutil.rmtree(cap, ignore_errors=True)
            if ind is None:
                raise Violation("approx|no_ind", "DIMACS file has no 'c ind' sampling set")
            if len(set(ind)) != len(ind):
                raise Violation("approx|ind_dup", "sampling set lists a variable twice")
            if len(ind) != nsp:
                raise Violation("approx|ind_size", f"sampling set has {len(ind)} variables, circuit has {nsp} startpoints")
            # map variables through an identical cnf() call (same process => same set order)
            f2 = need(lib(cg.sat.cnf, c), "cnf", "cnf")
            formula, variables = f2
            base = [list(cl) for cl in formula.clauses]
            if clauses[: len(base)] == base:
                labels.append("ind_mapped")
                g = c.graph
                sp = {n for n in g.nodes if g.nodes[n]["type"] in ("input", "bb_output")}
                want = {variables.id(n) for n in sp}
                if set(ind) != want:
                    raise Violation("approx|ind_set", f"sampling set {sorted(ind)} is not the startpoint variable set {sorted(want)}")
            cnt = _count_dimacs(ind, nv, clauses)
            if cnt is None:
                labels.append("dimacs_too_big_to_recount")
            elif cnt != exp:
                raise Violation("approx|dimacs_count", f"DIMACS instance has {cnt} projected models, reference count {exp} (A={A})")
            if got != exp:
                raise Violation("approx|returned", f"approx_model_count returned {got}, reference {exp}")
        nontriv = (0 < exp < (1 << nsp)) or bool(flags)
        if exp == 0:
            labels.append("count_zero")
        if any(c.graph.nodes[n]["type"] not in ("input", "bb_output") for n in A):
            labels.append("internal_assumption")
        return {"nontrivial": bool(nontriv), "labels": labels}
    if kind == "prob":
        n = case["node"]
        cone = refsim.ancestors(c, [n]) | {n}
        if any(c.graph.nodes[x]["type"] in ("bb_input", "bb_output") for x in cone):
            r = lib(cg.props.signal_probability, c, n, approx=False)
            if r.ok or r.type != "NotImplementedError":
                raise Violation("prob|bb_cone", f"cone with blackbox pins: {r.value if r.ok else r.text}")
            return {"nontrivial": False, "labels": labels + ["bb_cone_rejected"]}
        got = need(lib(cg.props.signal_probability, c, n, approx=False), "prob", f"signal_probability(c,{n!r})")
        free = sorted(x for x in cone if c.graph.nodes[x]["type"] == "input")
        sub = c.graph.subgraph(cone)

        class V:
            graph = sub
            blackboxes = {}

        asg, W = refsim.std_assignment(free)
        val = refsim.simulate(V, asg, W)
        exp = Fraction(refsim.popcount(val[n]), W)
        if Fraction(got) != exp:
            raise Violation("prob|value", f"signal_probability(c,{n!r}) = {got}, reference {exp} over {len(free)} startpoints")
        smaller = len(cone) < len(c.graph.nodes)
        if smaller:
            labels.append("cone_smaller")
        if exp in (0, 1):
            labels.append("prob_const")
        return {"nontrivial": bool(smaller or 0 < exp < 1), "labels": labels}
    raise Violation("harness", f"unknown kind {kind}")
