"""C10 -- ternary encoding computes Kleene three-valued simulation."""
from hypothesis import strategies as st

import circuitgraph as cg
from cgv import refsim, specs
from cgv import strategies as S
from cgv.harness import HarnessError, Violation, lib, need

ID = "C10"
RULE = (
    "cases: blackbox-free lint-clean acyclic circuit specs over all gate types and arities (fan-in 1..5) "
    "with constants, 0..5 inputs; a third of the cases draws node names from a pool of names that look like the companion / helper names the transform creates (a_X, a_not, a_is_0 ...). The result of tx.ternary(c) is simulated by the reference simulator "
    "over all 4^|inputs| valuations of (input, companion) pairs = all 3^|inputs| ternary patterns x both "
    "binary values under X; an independent bit-parallel Kleene evaluator (cross-checked against a scalar "
    "one) decides for every node whether it is X and its value; mapping[n] must be 1 exactly when Kleene "
    "gives X, otherwise n must carry the Kleene value; for <= 3 inputs additionally n's value equals its "
    "value in c under every completion of the X inputs. Structure: mapping is injective onto new names, "
    "original nodes keep type and fan-in, free signals are the inputs and their companions. "
    "Non-trivial: some pattern has an X fan-in masked by a controlling value at an and/or-family gate "
    "with fan-in >= 2. Distinct by digest."
)
RULE += ' Added after seeded-change rounds 4-5: fan-in names whose underscore-joins coincide, numbered names that are prefixes of each other, pools of suffix-related names (x / x_inv / x[0] / x_0).'
ASSUMPTIONS = ["reference simulator and Kleene evaluator in cgv (refsim.kleene + bit-parallel variant)"]
EXHAUSTIVE_NOTE = "core: each gate type x fan-in 1..3 single-gate circuits and with a constant operand, all patterns"
EXAMPLES = {"quick": 2000, "thorough": 40000}


def core(ctx):
    for t in S.NARY:
        for k in (1, 2, 3):
            nodes = [[f"i{j}", "input", [], False] for j in range(k)]
            nodes.append(["g", t, [f"i{j}" for j in range(k)], True])
            yield {"spec": {"name": "c", "nodes": nodes, "bbtypes": [], "insts": []}}
            for ct in ("0", "1"):
                n2 = [list(x) for x in nodes[:-1]] + [["k", ct, [], False], ["g", t, [f"i{j}" for j in range(k)] + ["k"], True]]
                yield {"spec": {"name": "c", "nodes": n2, "bbtypes": [], "insts": []}}
    # deep chains (one logic level per gate), stored drivers-first and outputs-first
    for depth in (300, 1500):
        nodes = [["a", "input", [], False], ["b", "input", [], False]]
        prev = "a"
        for i in range(depth):
            t_ = ["not", "and", "buf", "or", "xor"][i % 5]
            nodes.append([f"d{i}", t_, [prev] if t_ in ("not", "buf") else [prev, "b"], i == depth - 1])
            prev = f"d{i}"
        yield {"spec": {"name": "deep", "nodes": nodes, "bbtypes": [], "insts": []}}
        yield {"spec": {"name": "deep", "nodes": nodes[::-1], "bbtypes": [], "insts": []}}
    for t in S.UNARY:
        yield {"spec": {"name": "c", "nodes": [["a", "input", [], False], ["g", t, ["a"], True]], "bbtypes": [], "insts": []}}
        yield {"spec": {"name": "c", "nodes": [["a", "1", [], False], ["g", t, ["a"], True]], "bbtypes": [], "insts": []}}


# names that look like the companion / helper names the transform creates
HELPERLIKE = ["a", "b", "c", "a_not", "b_not", "c_not", "a_X", "b_X", "a_is_0", "a_is_1", "b_is_1", "a_not_x", "a_not_X",
              "a_x_in_fi", "a_0_not_in_fi", "a_1_not_in_fi", "a_X_0", "a_X_X", "b_not_x", "b_is_0", "c_X", "c_is_0"]


def strategy(ctx):
    plain = S.circuit_spec(min_inputs=0, max_inputs=5, min_gates=1, max_gates=9, max_fanin=5, io_outputs=True)
    adv = S.circuit_spec(min_inputs=1, max_inputs=4, min_gates=1, max_gates=8, max_fanin=4, io_outputs=True,
                         pools=(HELPERLIKE,))
    adv2 = S.circuit_spec(min_inputs=2, max_inputs=5, min_gates=2, max_gates=8, max_fanin=5, io_outputs=True, min_fanin_nary=2,
                          pools=(list(S.COMPOUND) + ["N1", "N10", "N11", "N13", "N17", "N19", "d", "dA", "a_0", "a0", "N1_X", "d_X"],))
    rel = S.related_names_pool().flatmap(lambda pool: S.circuit_spec(min_inputs=2, max_inputs=5, min_gates=2, max_gates=8, max_fanin=4,
                                                                     io_outputs=True, pools=(pool,)))
    return st.builds(lambda s: {"spec": s}, st.one_of(plain, plain, adv, adv2, _twins(adv2), rel))


TW = [(["a_b", "c"], ["a", "b_c"]), (["a", "b", "c"], ["a_b", "c"]), (["a", "b", "c"], ["a", "b_c"]), (["a_b_c", "a"], ["a_b", "c_a"]),
      (["a_b", "c_a"], ["a", "b_c", "a"]), (["b_a", "c"], ["b", "a_c"]), (["a", "b"], ["a_b"]), (["N1", "N10"], ["N1", "N1_X"])]


@st.composite
def _twins(draw, base):
    """two gates whose fan-in names, joined with underscores, coincide although the fan-in sets differ"""
    spec = draw(base)
    l1, l2 = draw(st.sampled_from(TW))
    if draw(st.booleans()):
        l1, l2 = l2, l1
    names = {x[0] for x in spec["nodes"]}
    head = [[n, "input", [], False] for n in dict.fromkeys(l1 + l2) if n not in names]
    fresh = [n for n in ("tw1", "tw2", "k1", "k2") if n not in names][:2]
    fam = ["and", "nand", "or", "nor", "and", "or", "xor", "xnor"]
    tail = [[fresh[0], draw(st.sampled_from(fam)), list(dict.fromkeys(l1)), True],
            [fresh[1], draw(st.sampled_from(fam)), list(dict.fromkeys(l2)), True]]
    spec["nodes"] = head + spec["nodes"] + tail
    return spec


def kleene_tables(c, isx_in, val_in, W):
    """Bit-parallel Kleene evaluation.  Returns dict node -> (isX, value)."""
    full = (1 << W) - 1
    out = {}
    for n in refsim.topo(c):
        t = refsim.gtype(c, n)
        ps = [out[p] for p in c.graph.pred[n]]
        if t == "input":
            x = isx_in[n]
            out[n] = (x, val_in[n] & ~x & full)
        elif t == "0":
            out[n] = (0, 0)
        elif t == "1":
            out[n] = (0, full)
        elif t == "buf":
            out[n] = ps[0]
        elif t == "not":
            x, v = ps[0]
            out[n] = (x, ~v & ~x & full)
        elif t in ("and", "nand", "or", "nor"):
            ctrl = 0 if t in ("and", "nand") else 1  # controlling value
            some_ctrl = 0
            all_non = full
            for x, v in ps:
                definite = ~x & full
                is_ctrl = definite & (v if ctrl else ~v & full)
                is_non = definite & ((~v & full) if ctrl else v)
                some_ctrl |= is_ctrl
                all_non &= is_non
            ox = ~some_ctrl & ~all_non & full
            # and: 1 iff all fan-in 1 ; or: 1 iff some fan-in 1
            v = all_non if t in ("and", "nand") else some_ctrl
            if t in ("nand", "nor"):
                v = ~v & full
            out[n] = (ox, v & ~ox & full)
        elif t in ("xor", "xnor"):
            ox = 0
            v = 0
            for x, pv in ps:
                ox |= x
                v ^= pv
            if t == "xnor":
                v = ~v & full
            out[n] = (ox, v & ~ox & full)
        else:
            raise HarnessError(f"kleene_tables: type {t}")
    return out


def check(case, ctx):
    spec = case["spec"]
    c = specs.build(spec)
    if refsim.ref_lint(c):
        raise specs.SpecError("generator produced non-lint-clean circuit")
    snap = refsim.snapshot(c)
    r = need(lib(cg.tx.ternary, c), "ternary", "tx.ternary(c)")
    if refsim.snapshot(c) != snap:
        raise Violation("ternary|mutates_argument", "argument modified")
    if not (isinstance(r, tuple) and len(r) == 2):
        raise Violation("ternary|return", "ternary did not return (circuit, mapping)")
    t, mapping = r
    orig = set(c.graph.nodes)
    if set(mapping) != orig:
        raise Violation("ternary|mapping_keys", f"mapping keys differ from nodes: {sorted(set(mapping) ^ orig)}")
    comp = list(mapping.values())
    if len(set(comp)) != len(comp) or set(comp) & orig:
        raise Violation("ternary|mapping_not_injective", "companion names collide")
    for n in orig:
        if n not in t.graph.nodes or t.graph.nodes[n].get("type") != c.graph.nodes[n]["type"] or set(
            t.graph.pred[n]
        ) != set(c.graph.pred[n]):
            raise Violation("ternary|original_changed", f"original node {n!r} changed type or fan-in")
        if mapping[n] not in t.graph.nodes:
            raise Violation("ternary|companion_missing", f"companion of {n!r} missing")
    bad = refsim.ref_lint(t)
    if bad:
        raise Violation("ternary|lint", f"ternary circuit not lint-clean: {bad[:3]}")
    inputs = sorted(n for n in orig if c.graph.nodes[n]["type"] == "input")
    exp_free = sorted(inputs + [mapping[i] for i in inputs])
    free = refsim.free_nodes(t)
    if free != exp_free:
        raise Violation("ternary|free_signals", f"free signals {free} != inputs and their companions {exp_free}")
    order = inputs + [mapping[i] for i in inputs]
    asg, W = refsim.std_assignment(order)
    val = refsim.simulate(t, asg, W)
    isx_in = {i: asg[mapping[i]] for i in inputs}
    val_in = {i: asg[i] for i in inputs}
    kt = kleene_tables(c, isx_in, val_in, W)
    # cross-check the bit-parallel Kleene evaluator against the scalar one
    for j in sorted({0, W - 1, (W * 5) // 7, W // 3}):
        pat = {i: ("X" if (isx_in[i] >> j) & 1 else (val_in[i] >> j) & 1) for i in inputs}
        sc = refsim.kleene(c, pat)
        for n in orig:
            x, v = kt[n]
            got = "X" if (x >> j) & 1 else (v >> j) & 1
            if got != sc[n]:
                raise HarnessError(f"Kleene evaluators disagree at {n} under {pat}")
    full = (1 << W) - 1
    for n in sorted(orig):
        x, v = kt[n]
        mx = val[mapping[n]]
        if mx != x:
            j = refsim.bits(mx ^ x)[0]
            pat = {i: ("X" if (isx_in[i] >> j) & 1 else (val_in[i] >> j) & 1) for i in inputs}
            raise Violation(
                "ternary|x_flag",
                f"node {n!r} ({c.graph.nodes[n]['type']}, fan-in {len(c.graph.pred[n])}): companion={(mx >> j) & 1} "
                f"but Kleene says {'X' if (x >> j) & 1 else 'binary'} under {pat}",
            )
        d = (val[n] ^ v) & ~x & full
        if d:
            j = refsim.bits(d)[0]
            pat = {i: ("X" if (isx_in[i] >> j) & 1 else (val_in[i] >> j) & 1) for i in inputs}
            raise Violation("ternary|binary_value", f"node {n!r}: value {(val[n] >> j) & 1} != Kleene value {(v >> j) & 1} under {pat}")
    labels = []
    if len(inputs) <= 3 and inputs:
        # completion check against c's own truth table
        a2, W2 = refsim.std_assignment(inputs)
        tv = refsim.simulate(c, a2, W2)
        for j in range(W):
            xs = [i for i in inputs if (isx_in[i] >> j) & 1]
            base = sum(((val_in[i] >> j) & 1) << inputs.index(i) for i in inputs if i not in xs)
            comps = [base]
            for i in xs:
                comps = comps + [b | (1 << inputs.index(i)) for b in comps]
            for n in orig:
                if (val[mapping[n]] >> j) & 1:
                    continue
                want = (val[n] >> j) & 1
                for b in comps:
                    if (tv[n] >> b) & 1 != want:
                        raise Violation("ternary|completion", f"node {n!r} flagged binary but differs under a completion of the X inputs")
        labels.append("completion_checked")
    masked = False
    for n in orig:
        tp = c.graph.nodes[n]["type"]
        ps = list(c.graph.pred[n])
        if tp in ("and", "nand", "or", "nor") and len(ps) >= 2:
            anyx = 0
            for p in ps:
                anyx |= kt[p][0]
            if anyx & ~kt[n][0] & full:
                masked = True
    if masked:
        labels.append("x_masked_by_controlling_value")
    if specs.spec_stats(spec)["parity3"]:
        labels.append("parity_fanin>=3")
    if any("_" in x[0] for x in spec["nodes"]):
        labels.append("helper_like_names")
    return {"nontrivial": masked, "labels": labels}
