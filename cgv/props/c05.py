"""C05 -- limit_fanin / limit_fanout / insert_registers / acyclic_unroll(acyclic) preserve function."""
import networkx as nx
from hypothesis import strategies as st

import circuitgraph as cg
from cgv import refsim, specs
from cgv import strategies as S
from cgv.harness import Violation, lib, need

ID = "C05"
RULE = (
    "cases: (fanin/fanout) lint-clean circuit specs with gates of every type at fan-in 1..7 and fan-out "
    "0..7, optional blackbox instances, k in 2..5 (and k<2 must raise ValueError); (regs) blackbox-free "
    "acyclic circuits with num_stages 1..8 chosen so that round(depth/(num_stages+1)) >= 1 (num_stages <= 2*depth-2; mostly depth >= num_stages+1); (unroll) blackbox-free "
    "acyclic circuits. Oracle: same inputs/outputs/blackbox registry, max fan-in (fan-out) <= k, every "
    "original node has the same truth table (reference simulation of both circuits over all valuations "
    "of the free nodes, <= 10, else 64 drawn), result lint-clean; insert_registers: every new blackbox "
    "is the given flop with one d driver and one q load, making flops transparent gives equal tables at "
    "all original nodes and contracting the q buffers restores exactly the original edge set; "
    "acyclic_unroll(acyclic): same io and same table at every output. Non-trivial: some node exceeds k "
    "before the transform / >= 1 flop inserted / depth >= 2. Distinct by digest."
)
ASSUMPTIONS = [
    "reference simulator cgv.refsim",
    "benign names (no clash with *_limit_fanin_*, *_cg_insert_reg_q_*, clk, ff_*)",
    "num_stages restricted to num_stages <= 2*depth-2 (the stage step round(depth/(num_stages+1)) is >= 1; outside that range the unchanged code raises)",
]
EXHAUSTIVE_NOTE = "core: each n-ary type x fan-in 3..7 x k 2..5 single-gate circuits with full truth tables; fan-out 3..7 x k 2..5 star circuits"
EXAMPLES = {"quick": 1200, "thorough": 25000}


class G:
    """Bare circuit-like view for the reference simulator."""

    def __init__(self, graph, blackboxes=None, name="g"):
        self.graph = graph
        self.blackboxes = blackboxes or {}
        self.name = name


def core(ctx):
    for t in S.NARY:
        for n in range(3, 8):
            for k in range(2, 6):
                nodes = [[f"i{j}", "input", [], False] for j in range(n)]
                nodes.append(["g", t, [f"i{j}" for j in range(n)], True])
                yield {"op": "fanin", "k": k, "tables": None,
                       "spec": {"name": "c", "nodes": nodes, "bbtypes": [], "insts": []}}
    for n in range(3, 8):
        for k in range(2, 6):
            nodes = [["a", "input", [], False], ["b", "input", [], False]]
            ts = ["and", "not", "xor", "buf", "nor", "or", "nand"]
            for j in range(n):
                t = ts[j]
                nodes.append([f"g{j}", t, ["a"] if t in ("not", "buf") else ["a", "b"], True])
            yield {"op": "fanout", "k": k, "tables": None,
                   "spec": {"name": "c", "nodes": nodes, "bbtypes": [], "insts": []}}
    for k in (1, 0, -3):
        for op in ("fanin", "fanout"):
            nodes = [["a", "input", [], False], ["g", "not", ["a"], True]]
            yield {"op": op, "k": k, "tables": None,
                   "spec": {"name": "c", "nodes": nodes, "bbtypes": [], "insts": []}}


def _depth(spec):
    fi = {n: fanin for n, t, fanin, o in spec["nodes"]}
    d = {}

    def dep(n):
        if n not in d:
            d[n] = 1 + max(dep(f) for f in fi[n]) if fi[n] else 0
        return d[n]

    return max([dep(n) for n in fi] + [0])


@st.composite
def _case(draw, ctx):
    op = draw(st.sampled_from(["fanin", "fanin", "fanout", "fanout", "regs", "unroll"]))
    again = draw(st.integers(0, 3)) == 0  # apply the transform to its own output with a smaller k
    tables = draw(st.lists(st.integers(0, (1 << 64) - 1), min_size=16, max_size=16))
    cts = ("0", "1", "x") if draw(st.integers(0, 3)) == 0 else ("0", "1")
    if op in ("fanin", "fanout") and draw(st.integers(0, 5)) == 0:
        # circuits with feedback: every original node must keep its set of stable values
        spec = draw(S.circuit_spec(min_inputs=1, max_inputs=2, min_gates=2, max_gates=5, max_fanin=5 if op == "fanin" else 3,
                                   cyclic=True, consts=False))
        return {"op": op + "_cyc", "k": draw(st.integers(2, 3)), "spec": spec, "tables": tables}
    if op == "fanin":
        spec = draw(S.circuit_spec(min_inputs=2, max_inputs=7, min_gates=1, max_gates=8, max_fanin=7, const_types=cts,
                                   max_insts=draw(st.sampled_from([0, 0, 2])), io_outputs=True))
        return {"op": op, "k": draw(st.integers(2, 5)), "spec": spec, "tables": tables, "again": again}
    if op == "fanout":
        spec = draw(S.circuit_spec(min_inputs=1, max_inputs=3, min_gates=3, max_gates=12, max_fanin=3, const_types=cts,
                                   max_insts=draw(st.sampled_from([0, 0, 2])), io_outputs=True))
        return {"op": op, "k": draw(st.integers(2, 5)), "spec": spec, "tables": tables, "again": again}
    if op == "regs":
        spec = draw(S.circuit_spec(min_inputs=1, max_inputs=4, min_gates=2, max_gates=10, max_fanin=3))
        d = _depth(spec)
        if d < 2:
            return {"op": "unroll", "spec": spec, "tables": tables}
        # accepted stage counts: the stage step round(depth / (num_stages + 1)) must be at least 1
        stages = draw(st.integers(1, min(3, d - 1))) if draw(st.integers(0, 2)) else draw(st.integers(1, min(8, 2 * d - 2)))
        variant = draw(st.sampled_from(["default", "default", "clk_exists", "no_side_pins"]))
        if variant == "clk_exists":
            # the design already has a node called clk (a gate, or an input that is also an output)
            cands = [x for x in spec["nodes"] if x[1] in S.ALL_GATES or x[1] == "input"]
            x = draw(st.sampled_from(cands))
            old_name = x[0]
            for y in spec["nodes"]:
                y[2] = ["clk" if f == old_name else f for f in y[2]]
            x[0] = "clk"
            if x[1] == "input" and draw(st.booleans()):
                x[3] = True
        return {"op": op, "stages": stages, "spec": spec, "tables": tables, "variant": variant}
    spec = draw(S.circuit_spec(min_inputs=1, max_inputs=5, min_gates=1, max_gates=10, max_fanin=4,
                               io_outputs=True))
    return {"op": "unroll", "spec": spec, "tables": tables}


def strategy(ctx):
    return _case(ctx)


def _xnodes(c):
    return sorted(n for n in c.graph.nodes if c.graph.nodes[n].get("type") == "x")


def _tables(c, case):
    # an 'x' constant has no Boolean value of its own: it is treated as one more free signal,
    # the same one in the original and in the transformed circuit
    free = sorted(refsim.free_nodes(c) + _xnodes(c))
    if len(free) <= 10 or case["tables"] is None:
        asg, W = refsim.std_assignment(free)
    else:
        W = 64
        tb = case["tables"]
        asg = {n: tb[i % len(tb)] ^ (i // len(tb)) for i, n in enumerate(free)}
    return free, asg, W


def _same_registry(c, r, what):
    if set(c.blackboxes) != set(r.blackboxes) or any(c.blackboxes[k] is not r.blackboxes[k] for k in c.blackboxes):
        raise Violation(f"{what}|registry", f"{what}: blackbox registry changed")


def _compare_nodes(c, r, asg, W, what, only=None):
    xt = {n: asg[n] for n in _xnodes(c)}
    v0 = refsim.simulate(c, asg, W, x_tables=xt)
    free_r = refsim.free_nodes(r) + _xnodes(r)
    if set(free_r) != set(asg):
        raise Violation(f"{what}|free_nodes", f"{what}: free signals changed: {sorted(set(free_r) ^ set(asg))}")
    v1 = refsim.simulate(r, asg, W, x_tables=xt)
    for n in (only if only is not None else v0):
        if n not in v1:
            raise Violation(f"{what}|node_missing", f"{what}: original node {n!r} missing from result")
        if v0[n] != v1[n]:
            j = refsim.bits(v0[n] ^ v1[n])[0]
            val = {f: (asg[f] >> j) & 1 for f in sorted(asg)}
            raise Violation(
                f"{what}|function_changed",
                f"{what}: node {n!r} (type {refsim.gtype(c, n)}, fan-in {len(refsim.preds(c, n))}) "
                f"computes {(v1[n] >> j) & 1} instead of {(v0[n] >> j) & 1} under {val}",
            )


def check(case, ctx):
    spec = case["spec"]
    c = specs.build(spec)
    if refsim.ref_lint(c):
        raise specs.SpecError("generator produced non-lint-clean circuit")
    op = case["op"]
    snap = refsim.snapshot(c)
    labels = [op]
    if _xnodes(c):
        labels.append("has_x_constant")
    if op in ("fanin_cyc", "fanout_cyc"):
        k = case["k"]
        base = op[:-4]
        fn = cg.tx.limit_fanin if base == "fanin" else cg.tx.limit_fanout
        r = need(lib(fn, c, k), op, f"limit_{base}(cyclic c,{k})")
        if refsim.snapshot(c) != snap:
            raise Violation(f"{base}|mutates_argument", "argument modified")
        if r.inputs() != c.inputs() or r.outputs() != c.outputs():
            raise Violation(f"{base}|io", f"limit_{base}: io changed")
        deg = (lambda g, n: len(g.pred[n])) if base == "fanin" else (lambda g, n: len(g.succ[n]))
        if max(deg(r.graph, n) for n in r.graph.nodes) > k:
            raise Violation(f"{base}|bound", f"limit_{base}(c,{k}): bound exceeded on a cyclic circuit")
        on = sorted(c.graph.nodes)
        extra = sorted(set(r.graph.nodes) - set(on))
        if set(on) - set(r.graph.nodes) or len(on) + len(extra) > 16:
            if set(on) - set(r.graph.nodes):
                raise Violation(f"{base}|node_missing", "original node missing")
            return {"nontrivial": False, "labels": [op, "skipped_too_big"]}
        _, ok0 = refsim.consistent_mask(c, on)
        _, ok1 = refsim.consistent_mask(r, on + extra)
        chunk = 1 << len(on)
        cm = (1 << chunk) - 1
        proj = 0
        while ok1:
            proj |= ok1 & cm
            ok1 >>= chunk
        if proj != ok0:
            raise Violation(f"{base}|stable_states_changed", f"limit_{base}(c,{k}) on a cyclic circuit changed the set of consistent valuations of the original nodes")
        before = max(deg(c.graph, n) for n in c.graph.nodes)
        return {"nontrivial": before > k, "labels": [op, "cyclic" if refsim.has_cycle(c) else "acyclic"]}
    if op in ("fanin", "fanout"):
        k = case["k"]
        fn = cg.tx.limit_fanin if op == "fanin" else cg.tx.limit_fanout
        out = lib(fn, c, k)
        if k < 2:
            if out.ok or out.type != "ValueError":
                raise Violation(f"{op}|k_lt_2", f"limit_{op}(c,{k}) did not raise ValueError")
            return {"nontrivial": False, "labels": [op + "_reject_k"]}
        r = need(out, op, f"limit_{op}(c,{k})")
        if case.get("again") and k > 2:
            # histories: the result of one application is a legal argument of the next
            k2 = 2 + (k + len(spec["nodes"])) % (k - 2)
            r = need(lib(fn, r, k2), op + "_again", f"limit_{op}(limit_{op}(c,{k}),{k2})")
            k = k2
            labels.append("reapplied")
        if refsim.has_cycle(r):
            raise Violation(f"{op}|cyclic_result", f"limit_{op} returned a cyclic circuit")
        if refsim.snapshot(c) != snap:
            raise Violation(f"{op}|mutates_argument", "argument modified")
        if r.inputs() != c.inputs() or r.outputs() != c.outputs():
            raise Violation(f"{op}|io", f"limit_{op}: io changed")
        _same_registry(c, r, op)
        deg = (lambda g, n: len(g.pred[n])) if op == "fanin" else (lambda g, n: len(g.succ[n]))
        before = max(deg(c.graph, n) for n in c.graph.nodes)
        after = max(deg(r.graph, n) for n in r.graph.nodes)
        if after > k:
            raise Violation(f"{op}|bound", f"limit_{op}(c,{k}): a node still has {after}")
        bad = refsim.ref_lint(r)
        if bad:
            raise Violation(f"{op}|lint", f"limit_{op}(c,{k}) result not lint-clean: {bad[:3]}")
        free, asg, W = _tables(c, case)
        _compare_nodes(c, r, asg, W, f"limit_{op}")
        if before > k:
            labels.append("exceeded_before")
        if spec["insts"]:
            labels.append("has_blackbox")
        return {"nontrivial": before > k, "labels": labels}
    if op == "regs":
        stages = case["stages"]
        variant = case.get("variant", "default")
        flop = cg.generic_flop
        dport, qport, side = "d", "q", {"clk": "clk"}
        if variant == "no_side_pins":
            flop = cg.BlackBox("cell", ["d"], ["q"])
            side = {}
            r = need(lib(cg.tx.insert_registers, c, stages, ff=flop, other_flop_io={}), "regs", f"insert_registers(c,{stages},ff=cell,other_flop_io={{}})")
        elif variant == "custom_ports":
            flop = cg.BlackBox("dffr", ["CK", "D", "R"], ["Q"])
            dport, qport, side = "D", "Q", {"clk": "CK", "rstn": "R"}
            r = need(lib(cg.tx.insert_registers, c, stages, ff=flop, d_port="D", q_port="Q", other_flop_io=dict(side)),
                     "regs", f"insert_registers(c,{stages},ff=dffr,...)")
        else:
            r = need(lib(cg.tx.insert_registers, c, stages), "regs", f"insert_registers(c,{stages})")
        labels.append("regs_" + variant)
        if refsim.snapshot(c) != snap:
            raise Violation("regs|mutates_argument", "argument modified")
        if r.outputs() != c.outputs():
            raise Violation("regs|outputs", "insert_registers changed the output set")
        new_inputs = {n for n in side if n not in c.graph.nodes}
        if set(r.inputs()) != set(c.inputs()) | new_inputs:
            raise Violation("regs|inputs", f"insert_registers inputs {sorted(r.inputs())}, expected {sorted(set(c.inputs()) | new_inputs)}")
        bad = refsim.ref_lint(r)
        if bad:
            raise Violation("regs|lint", f"insert_registers result not lint-clean: {bad[:3]}")
        g = r.graph.copy()
        qbufs = {}
        side_drv = []
        for iname, bb in r.blackboxes.items():
            if bb is not flop:
                raise Violation("regs|flop_type", f"instance {iname} is not the given flop")
            dp, qp = f"{iname}.{dport}", f"{iname}.{qport}"
            sides = {f"{iname}.{pin}": net for net, pin in side.items()}
            for p in [dp, qp] + list(sides):
                if p not in g:
                    raise Violation("regs|pins", f"pin {p} missing")
            dd = list(g.pred[dp])
            ql = list(g.succ[qp])
            if len(dd) != 1 or len(ql) != 1:
                raise Violation("regs|pin_wiring", f"{iname}: d drivers {dd}, q loads {ql}")
            for p, net in sides.items():
                side_drv.append((p, list(g.pred[p]), net))
            if g.nodes[ql[0]].get("type") != "buf" or ql[0] in c.graph.nodes:
                raise Violation("regs|q_buffer", f"{iname}: q drives {ql[0]!r} which is not a new buffer")
            qbufs[ql[0]] = dd[0]
            g.remove_nodes_from([dp, qp] + list(sides))
            g.add_edge(dd[0], ql[0])
        for p, drv, net in side_drv:
            # the side net may itself have been registered: follow the q buffers back to it
            d0 = drv[0] if len(drv) == 1 else None
            seen = 0
            while d0 in qbufs and seen < 100:
                d0 = qbufs[d0]
                seen += 1
            if d0 != net:
                raise Violation("regs|clk", f"side pin {p} driven by {drv}, expected net {net!r}")
        extra = set(g.nodes) - set(c.graph.nodes) - set(qbufs) - new_inputs
        if extra or (set(c.graph.nodes) - set(g.nodes)):
            raise Violation("regs|nodes", f"unexpected node set change: +{sorted(extra)} -{sorted(set(c.graph.nodes) - set(g.nodes))}")
        transparent = G(g)
        free, asg, W = _tables(c, case)
        asg2 = dict(asg)
        for n in new_inputs:
            asg2[n] = 0
        v0 = refsim.simulate(c, asg, W)
        v1 = refsim.simulate(transparent, asg2, W)
        for n in v0:
            if v0[n] != v1[n]:
                raise Violation("regs|function_changed", f"with transparent flops node {n!r} differs from the original")
        # contract q buffers: must restore exactly the original edges
        edges = set()
        for u, v in g.edges:
            if v in qbufs:
                continue
            if u in qbufs:
                u = qbufs[u]
            edges.add((u, v))
        if edges != set(c.graph.edges):
            raise Violation("regs|rewires", f"insert_registers did more than splice wires: edge diff {sorted(edges ^ set(c.graph.edges))[:4]}")
        for n in c.graph.nodes:
            if r.graph.nodes[n] != c.graph.nodes[n]:
                raise Violation("regs|attrs", f"node {n!r} attributes changed")
        labels.append(f"flops_{min(len(qbufs), 4)}")
        return {"nontrivial": len(qbufs) >= 1, "labels": labels}
    if op == "unroll":
        r = need(lib(cg.tx.acyclic_unroll, c), "acyc_unroll", "acyclic_unroll(acyclic c)")
        if refsim.snapshot(c) != snap:
            raise Violation("acyc_unroll|mutates_argument", "argument modified")
        if r.inputs() != c.inputs() or r.outputs() != c.outputs():
            raise Violation("acyc_unroll|io", f"io changed: inputs {sorted(r.inputs())} outputs {sorted(r.outputs())}")
        bad = refsim.ref_lint(r)
        if bad:
            raise Violation("acyc_unroll|lint", f"result not lint-clean: {bad[:3]}")
        free, asg, W = _tables(c, case)
        _compare_nodes(c, r, asg, W, "acyclic_unroll", only=sorted(c.outputs()))
        d = _depth(spec)
        if any(x[1] == "input" and x[3] for x in spec["nodes"]):
            labels.append("input_is_output")
        return {"nontrivial": d >= 2, "labels": labels}
    raise Violation("harness", f"unknown op {op}")
