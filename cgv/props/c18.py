"""C18 -- acyclic_unroll removes cycles and preserves stable states."""
from hypothesis import strategies as st

import circuitgraph as cg
from cgv import refsim, specs
from cgv import strategies as S
from cgv.harness import Violation, lib, need

ID = "C18"
RULE = (
    "cases: blackbox-free circuit specs without self-loops, 0..3 inputs, 2..9 gates, generated with "
    "feedback edges (one or more cycles, nested / overlapping, several strongly connected components), "
    "every gate driven; rings and latches in the core. Oracle: tx.acyclic_unroll(c) is acyclic, "
    "lint-clean, has the same outputs, and its inputs are the original inputs plus auxiliary inputs named "
    "..aux_in_<f> with distinct f each lying on a cycle of c; the reference set of stable states "
    "(consistent valuations of all nodes, bit-parallel enumeration) is computed and, all at once, every "
    "stable state is replayed on the result with each aux input set to the stable value of its feedback "
    "node: every output must equal its stable value. Non-trivial: c is cyclic and has >= 1 stable state. "
    "Distinct by digest."
)
RULE += ' Added after seeded-change rounds 4-5: two or three feedback loops in series with forward edges between them, in any storage order; suffix-related and escaped names (\\\\q next to q).'
ASSUMPTIONS = ["reference semantics cgv.refsim (stable states = consistent valuations)", "circuits of <= 12 nodes"]
EXHAUSTIVE_NOTE = "core: 2- and 3-gate rings over every mix of {buf, not, and, nor, xor} with one input, SR latches (nor / nand), a ring with an input that is also an output"
EXAMPLES = {"quick": 1500, "thorough": 30000}


def core(ctx):
    import itertools

    for k in (2, 3):
        for ts in itertools.product(["buf", "not", "and", "nor", "xor"], repeat=k):
            nodes = [["a", "input", [], False]]
            for i, t in enumerate(ts):
                fi = [f"r{(i - 1) % k}"] + ([] if t in ("buf", "not") else ["a"])
                nodes.append([f"r{i}", t, fi, i == 0])
            yield {"spec": {"name": "c", "nodes": nodes, "bbtypes": [], "insts": []}}
    for t in ("nor", "nand"):
        nodes = [["s", "input", [], False], ["r", "input", [], True], ["q", t, ["r", "qn"], True], ["qn", t, ["s", "q"], True]]
        yield {"spec": {"name": "latch", "nodes": nodes, "bbtypes": [], "insts": []}}


@st.composite
def _case(draw, ctx):
    pools = (S.BENIGN,)
    adv = False
    if draw(st.integers(0, 3)) == 0:
        # names that look like the names the transform generates (copy prefixes, aux inputs)
        pools = (S.BENIGN[:8], ["c0_en", "c1_sel", "c0_a", "c1_b", "c2_x", "aux_in_r", "aux_in_a", "r", "a_aux_in_b", "c0_aux_in_a"])
        adv = True
    if not adv and draw(st.integers(0, 4)) == 0:
        # names related by suffixes / escaped spellings of the same text (\\q next to q)
        pools = (draw(S.related_names_pool(escaped=True)),)
    spec = draw(S.circuit_spec(min_inputs=0, max_inputs=3, min_gates=2, max_gates=9, max_fanin=3, cyclic=True,
                               selfloops=False, io_outputs=True, pools=pools))
    gates = [x for x in spec["nodes"] if x[1] in S.ALL_GATES]
    nary = [x for x in gates if x[1] in S.NARY]
    for _ in range(draw(st.sampled_from([0, 1, 2, 3, 5, 7, 9, 12]))):
        if not nary or len(gates) < 2:
            break
        g = draw(st.sampled_from(nary))
        h = draw(st.sampled_from([x for x in gates if x[0] != g[0]]))
        if h[0] not in g[2]:
            g[2] = g[2] + [h[0]]
    return {"spec": spec, "adv_names": adv}


@st.composite
def _series(draw, ctx):
    """Two or three feedback loops in series (separate strongly connected components joined by
    bridge nodes), with extra forward edges from an earlier loop to later bridges / loops, stored in a
    drawn order."""
    nodes = [["i0", "input", [], False], ["i1", "input", [], draw(st.booleans())]]
    stages = []  # list of lists of node names, in dependency order
    prev_feed = ["i0", "i1"]
    n_loops = draw(st.integers(2, 3))
    k = 0
    for li in range(n_loops):
        size = draw(st.integers(2, 3))
        loop = [f"l{li}{chr(97 + j)}" for j in range(size)]
        for j, n in enumerate(loop):
            t = draw(st.sampled_from(S.NARY))
            fi = [loop[j - 1]]
            if j == 0:
                fi.append(draw(st.sampled_from(prev_feed)))
            nodes.append([n, t, fi, draw(st.integers(0, 3)) == 0])
        stages.append(loop)
        if li < n_loops - 1:
            br = f"br{li}"
            nodes.append([br, draw(st.sampled_from(S.NARY)), [draw(st.sampled_from(loop))], False])
            stages.append([br])
            prev_feed = [br]
    # forward edges between stages (never backwards: the components stay separate)
    byname = {x[0]: x for x in nodes}
    for _ in range(draw(st.integers(0, 5))):
        a = draw(st.integers(0, len(stages) - 2))
        b = draw(st.integers(a + 1, len(stages) - 1))
        u = draw(st.sampled_from(stages[a]))
        v = draw(st.sampled_from(stages[b]))
        if u not in byname[v][2]:
            byname[v][2] = byname[v][2] + [u]
    # a few more edges inside loops
    for _ in range(draw(st.integers(0, 2))):
        loop = draw(st.sampled_from([s_ for s_ in stages if len(s_) > 1]))
        u, v = draw(st.sampled_from(loop)), draw(st.sampled_from(loop))
        if u != v and u not in byname[v][2]:
            byname[v][2] = byname[v][2] + [u]
    byname[stages[-1][-1]][3] = True
    for x in nodes:
        x[2] = list(draw(st.permutations(x[2])))
    nodes = list(draw(st.permutations(nodes)))
    return {"spec": {"name": "c", "nodes": nodes, "bbtypes": [], "insts": []}, "adv_names": False}


@st.composite
def _entangled(draw, ctx):
    """One strongly connected component made of a ring through all gates plus several chords (overlapping
    loops that share nodes), stored in a drawn order."""
    n = draw(st.integers(4, 10))
    gates = [f"g{i}" for i in range(n)]
    order = list(draw(st.permutations(gates)))
    nodes = [["i0", "input", [], False], ["i1", "input", [], draw(st.booleans())]]
    byname = {}
    for k, gname in enumerate(order):
        x = [gname, draw(st.sampled_from(S.NARY)), [order[k - 1]], draw(st.integers(0, 3)) == 0]
        byname[gname] = x
        nodes.append(x)
    for _ in range(draw(st.integers(2, 9))):
        u, v = draw(st.sampled_from(gates)), draw(st.sampled_from(gates))
        if u != v and u not in byname[v][2]:
            byname[v][2] = byname[v][2] + [u]
    for gname in draw(st.lists(st.sampled_from(gates), min_size=1, max_size=3, unique=True)):
        byname[gname][2] = byname[gname][2] + [draw(st.sampled_from(["i0", "i1"]))]
    byname[order[-1]][3] = True
    for x in nodes:
        x[2] = list(draw(st.permutations(x[2])))
    nodes = list(draw(st.permutations(nodes)))
    return {"spec": {"name": "c", "nodes": nodes, "bbtypes": [], "insts": []}, "adv_names": False}


def strategy(ctx):
    return st.one_of(_case(ctx), _case(ctx), _case(ctx), _series(ctx), _entangled(ctx))


def _on_cycle(c):
    """Nodes lying on some directed cycle."""
    out = set()
    for n in c.graph.nodes:
        if n in refsim.descendants(c, [n]):
            out.add(n)
    return out


def check(case, ctx):
    spec = case["spec"]
    c = specs.build(spec)
    if refsim.ref_lint(c):
        raise specs.SpecError("generator produced non-lint-clean circuit")
    if len(c.graph.nodes) > 13:
        return {"nontrivial": False, "labels": ["skipped_too_big"]}
    snap = refsim.snapshot(c)
    cyc = refsim.has_cycle(c)
    out = lib(cg.tx.acyclic_unroll, c)
    names = set(c.graph.nodes)
    clash = False
    for m in names:
        if m.startswith("aux_in_") and m[len("aux_in_"):] in names:
            clash = True
        if len(m) > 3 and m[0] == "c" and "_" in m and m[1:m.index("_")].isdigit():
            rest = m[m.index("_") + 1:]
            if rest in names or (rest.startswith("aux_in_") and rest[len("aux_in_"):] in names):
                clash = True
    if case.get("adv_names") and clash and not out.ok and out.type == "ValueError":
        # a node name equals a name the transform would generate from another node (c<i>_<node>,
        # aux_in_<node>): refusing with ValueError is then legitimate (the property does not speak
        # about names) -- only a *returned* circuit is judged
        return {"nontrivial": False, "labels": ["refused_with_generated_looking_names"]}
    r = need(out, "acyclic_unroll", "acyclic_unroll(c)")
    if refsim.snapshot(c) != snap:
        raise Violation("acyclic_unroll|mutates_argument", "argument modified")
    if refsim.has_cycle(r):
        raise Violation("acyclic_unroll|still_cyclic", "result contains a directed cycle")
    bad = refsim.ref_lint(r)
    if bad:
        raise Violation("acyclic_unroll|lint", f"result not lint-clean: {bad[:3]}")
    if set(r.outputs()) != set(c.outputs()):
        raise Violation("acyclic_unroll|outputs", f"outputs {sorted(r.outputs())} != {sorted(c.outputs())}")
    inputs = set(c.inputs())
    extra = set(r.inputs()) - inputs
    if inputs - set(r.inputs()):
        raise Violation("acyclic_unroll|inputs_lost", f"original inputs missing: {sorted(inputs - set(r.inputs()))}")
    oncyc = _on_cycle(c)
    aux = {}
    for x in extra:
        if "aux_in_" not in x:
            raise Violation("acyclic_unroll|extra_input", f"unexpected new input {x!r}")
        f = x.split("aux_in_", 1)[1]
        if f not in c.graph.nodes:
            raise Violation("acyclic_unroll|aux_unknown_node", f"aux input {x!r} names no node of c")
        if f not in oncyc:
            raise Violation("acyclic_unroll|aux_not_on_cycle", f"aux input {x!r}: {f!r} lies on no cycle of c")
        if f in aux.values():
            raise Violation("acyclic_unroll|aux_duplicate", f"two aux inputs for feedback node {f!r}")
        aux[x] = f
    if cyc and not aux:
        raise Violation("acyclic_unroll|no_aux", "cyclic circuit unrolled without any auxiliary input")
    if set(refsim.free_nodes(r)) != set(r.inputs()):
        raise Violation("acyclic_unroll|free", "result has undriven gates")
    order, ok = refsim.consistent_mask(c)
    states = refsim.bits(ok)
    K = len(states)
    labels = ["cyclic" if cyc else "acyclic", f"aux_{min(len(aux), 4)}"]
    if K:
        tab = {n: 0 for n in order}
        for k, j in enumerate(states):
            for i, n in enumerate(order):
                if (j >> i) & 1:
                    tab[n] |= 1 << k
        asg = {i: tab[i] for i in inputs}
        for x, f in aux.items():
            asg[x] = tab[f]
        val = refsim.simulate(r, asg, K)
        for o in c.outputs():
            if val[o] != tab[o]:
                k = refsim.bits(val[o] ^ tab[o])[0]
                st_ = {n: (tab[n] >> k) & 1 for n in order}
                raise Violation(
                    "acyclic_unroll|stable_state_not_reproduced",
                    f"stable state {st_}: output {o!r} of the unrolled circuit is {(val[o] >> k) & 1} (aux inputs {sorted(aux)})",
                )
        labels.append("has_stable_state")
        # stable states per input valuation
        per = {}
        ins = sorted(inputs)
        for k in range(K):
            key = tuple((tab[i] >> k) & 1 for i in ins)
            per[key] = per.get(key, 0) + 1
        if any(v >= 2 for v in per.values()):
            labels.append("multi_stable")
        if len(per) < (1 << len(ins)):
            labels.append("some_input_without_stable_state")
    else:
        labels.append("no_stable_state")
    nscc = 0
    seen = set()
    for n in oncyc:
        if n in seen:
            continue
        comp = {m for m in oncyc if m in refsim.descendants(c, [n]) and n in refsim.descendants(c, [m])} | {n}
        seen |= comp
        nscc += 1
    if nscc >= 2:
        labels.append("several_scc")
    return {"nontrivial": bool(cyc and K), "labels": labels}
