"""C14 -- fast Verilog parser agrees with the full parser on its documented subset."""
import glob
import os
import re

from hypothesis import strategies as st

import circuitgraph as cg
from cgv import refsim, vlog
from cgv import strategies as S
from cgv.harness import Violation, lib, need

ID = "C14"
RULE = (
    "cases: netlist ASTs restricted to the fast parser's documented subset (single module, no comments, one "
    "named primitive instance per statement, assigns of a net or 1'b0/1'b1, constants as gate operands, "
    "named-port blackbox instances with connected / `.p()` / omitted pins (also constants on input pins), "
    "all nets driven, no escaped identifiers), statements and declarations in any order, names plain or "
    "underscore-leading (nets and instance names), rendered with drawn spaces/tabs/newlines in every token "
    "gap (none where Verilog needs none) except that the header and every instance end in `);`; plus the "
    "library writer's output for generated circuits and (quick: the c17 family, thorough: every small "
    "enough) bundled netlist that satisfies a syntactic subset test. Oracle: differential -- fast=True vs "
    "fast=False give the same name, inputs, outputs, instances and types, and identical graphs after "
    "renaming the shared constant nodes (tie0<->tie_0, tie1<->tie_1); both results are additionally "
    "compared with the AST evaluator (truth tables of every net and blackbox input pin), so a fault common "
    "to both parsers is not masked. Non-trivial: >= 3 statements, >= 2 gate types and non-default "
    "whitespace; distinct by text digest."
)
RULE += ' Added after seeded-change rounds 4-5: cells named like primitives in another case (BUF, Nand, AND ...); feed-through ports through the writer.'
ASSUMPTIONS = [
    "AST evaluator cgv.vlog and reference simulator cgv.refsim",
    "net names never contain the words input/output/assign/module (the regex-based fast parser keys on them)",
]
EXHAUSTIVE_NOTE = "core: every primitive x arity 1..4 with and without a constant operand; assign of net / 1'b0 / 1'b1; one blackbox under all pin patterns; bundled c17 netlists"
EXAMPLES = {"quick": 260, "thorough": 8000}

UNDERS = ["_00_", "_1_", "_n3", "_abc_", "__x", "_G7"]
VNAMES = [n for n in S.BENIGN if n not in vlog.KEYWORDS and len(n) > 0]
NETLISTS = os.path.join(os.path.dirname(cg.__file__), "netlists")


def _mod(inputs, outputs, stmts, bbtypes=None, name="top"):
    items = [{"k": "input", "nets": list(inputs)}, {"k": "output", "nets": list(outputs)}] + stmts
    return {"name": name, "ports": list(inputs) + list(outputs), "items": items, "bbtypes": bbtypes or []}


def core(ctx):
    for t in S.ALL_GATES:
        for k in ([1] if t in S.UNARY else [1, 2, 3, 4]):
            for const in (None, "1'b0", "1'b1", "dup"):
                ins = [["id", x] for x in ["a", "b", "c", "d"][:k]]
                if const == "dup":
                    if t in S.UNARY:
                        continue
                    ins = ins + ins
                    const = None
                if const and t not in S.UNARY:
                    ins = ins + [["const", int(const[-1]), const]]
                st_ = [{"k": "gate", "t": t, "insts": [{"name": "g0", "out": "y", "ins": ins}]}]
                yield {"kind": "ast", "mod": _mod(["a", "b", "c", "d"], ["y"], st_), "ws": None}
    for rhs in (["id", "a"], ["const", 0, "1'b0"], ["const", 1, "1'b1"]):
        st_ = [{"k": "assign", "assigns": [{"lhs": "y", "rhs": rhs}]},
               {"k": "gate", "t": "not", "insts": [{"name": "g1", "out": "z", "ins": [["id", "y"]]}]}]
        yield {"kind": "ast", "mod": _mod(["a"], ["y", "z"], st_), "ws": None}
    bbt = [["ff", ["d", "clk"], ["q"]]]
    for pd in ("net", "const", "empty", "omit"):
        for pc in ("net", "empty", "omit"):
            for pq in ("net", "empty", "omit"):
                conns = []
                if pd != "omit":
                    conns.append(["d", {"net": ["id", "a"], "const": ["const", 1, "1'b1"], "empty": None}[pd]])
                if pc != "omit":
                    conns.append(["clk", {"net": ["id", "b"], "empty": None}[pc]])
                if pq != "omit":
                    conns.append(["q", {"net": ["id", "w"], "empty": None}[pq]])
                st_ = [{"k": "bb", "t": 0, "insts": [{"name": "u0", "conns": conns}]}]
                if pq == "net":
                    st_.append({"k": "gate", "t": "buf", "insts": [{"name": "g0", "out": "y", "ins": [["id", "w"]]}]})
                else:
                    st_.append({"k": "gate", "t": "and", "insts": [{"name": "g0", "out": "y", "ins": [["id", "a"], ["id", "b"]]}]})
                if not conns:
                    continue
                yield {"kind": "ast", "mod": _mod(["a", "b"], ["y"], st_, bbt), "ws": [0, 0, 0]}
    for f in sorted(glob.glob(os.path.join(NETLISTS, "c17*.v"))) + [os.path.join(NETLISTS, x) for x in ("mux_2.v", "mux_4.v", "switch.v", "s27.v")]:
        yield {"kind": "file", "file": os.path.basename(f)}
    if ctx.tier == "thorough":
        for f in sorted(glob.glob(os.path.join(NETLISTS, "*.v"))):
            if os.path.getsize(f) < 70000 and os.path.basename(f) not in ("mux_2.v", "mux_4.v", "switch.v", "s27.v") and not os.path.basename(f).startswith("c17"):
                yield {"kind": "file", "file": os.path.basename(f)}


@st.composite
def _module(draw, ctx):
    under = draw(st.integers(0, 2)) == 0
    pool = VNAMES + (UNDERS if under else [])
    if draw(st.integers(0, 4)) == 0:
        # wires named like the gates the full parser synthesises for expressions
        pool = ["a", "b", "c", "and_a_b", "not_c", "xor_a_b", "or_not_c_xor_a_b", "and_and_a_b_c", "and_a_b_0", "not_c_0",
                "or_a_b", "not_a", "xor_a_b_0", "d", "e", "f", "g", "h", "k", "m", "n", "p", "q", "r", "s", "t", "u", "v"]
    n_in = draw(st.integers(1, 4))
    n_def = draw(st.integers(1, 8))
    names = draw(st.lists(st.sampled_from(pool), min_size=n_in + 2 * n_def + 2, max_size=n_in + 2 * n_def + 2, unique=True))
    inputs = names[:n_in]
    if draw(st.integers(0, 5)) == 0:
        # an input may carry the name the fast parser would like to use for its constants
        inputs[0] = draw(st.sampled_from(["tie0", "tie1"]))
    fresh = names[n_in:]
    if draw(st.integers(0, 5)) == 0:
        # ... and so may an internal net (defined by a gate, an assign or a blackbox output), also in the
        # form the parser falls back to
        nm_ = draw(st.sampled_from(["tie0", "tie1", "tie0_", "tie1_"]))
        if nm_ not in inputs:
            fresh[draw(st.integers(0, len(fresh) - 1))] = nm_
    avail = list(inputs)
    defined = []
    stmts = []
    bbtypes = []
    inst_pool = ["g", "U", "x"] + (["_", "_g", "__"] if under else [])
    n_inst = 0
    for d in range(n_def):
        kind = draw(st.sampled_from(["gate", "gate", "gate", "assign", "bb"]))
        iname = draw(st.sampled_from(inst_pool)) + str(n_inst) + ("_" if under and draw(st.booleans()) else "")
        n_inst += 1
        if kind == "gate":
            t = draw(st.sampled_from(S.ALL_GATES))
            k = 1 if t in S.UNARY else draw(st.sampled_from([1, 2, 2, 3, 3, 4, 5]))
            if draw(st.integers(0, 4)) == 0:
                # repeated operands (both readers cancel pairs for parity gates)
                ops = draw(st.lists(st.sampled_from(avail + ["1'b0", "1'b1"]), min_size=k, max_size=k))
            else:
                k = min(k, len(avail) + 2)
                ops = draw(st.lists(st.sampled_from(avail + ["1'b0", "1'b1"]), min_size=k, max_size=k, unique=True))
            ins = [["const", int(o[-1]), o] if o.startswith("1'") else ["id", o] for o in ops]
            out = fresh.pop()
            stmts.append({"k": "gate", "t": t, "insts": [{"name": iname, "out": out, "ins": ins}]})
            avail.append(out)
            defined.append(out)
        elif kind == "assign":
            r = draw(st.sampled_from(avail + ["1'b0", "1'b1"]))
            rhs = ["const", int(r[-1]), r] if r.startswith("1'") else ["id", r]
            out = fresh.pop()
            stmts.append({"k": "assign", "assigns": [{"lhs": out, "rhs": rhs}]})
            avail.append(out)
            defined.append(out)
        else:
            if not bbtypes or (len(bbtypes) < 2 and draw(st.booleans())):
                if bbtypes and draw(st.integers(0, 2)) == 0:
                    # a second cell type that uses the first one's pin names in the opposite direction (S = sum / select ...)
                    pin_in = draw(st.lists(st.sampled_from(["q", "Y", "qn", "en"]), min_size=1, max_size=3, unique=True))
                    pin_out = draw(st.lists(st.sampled_from(["d", "A", "clk"]), min_size=1, max_size=2, unique=True))
                else:
                    pin_in = draw(st.lists(st.sampled_from(["d", "clk", "en", "A", "_p"]), min_size=0, max_size=3, unique=True))
                    pin_out = draw(st.lists(st.sampled_from(["q", "qn", "Y"]), min_size=0 if pin_in else 1, max_size=2, unique=True))
                # cell names are case sensitive: BUF / Nand / AND are cells, not the primitives
                tn = draw(st.sampled_from([None, None, "BUF", "Nand", "AND", "NOT", "Xor", "INVX1", "dff", "BUFX2", "Or"]))
                if tn is None or tn in [b[0] for b in bbtypes]:
                    tn = f"cell{len(bbtypes)}"
                bbtypes.append([tn, pin_in, pin_out])
            ti = draw(st.integers(0, len(bbtypes) - 1))
            conns = []
            for p in bbtypes[ti][1]:
                how = draw(st.sampled_from(["net", "net", "net", "const", "empty", "omit"]))
                if how == "net":
                    conns.append([p, ["id", draw(st.sampled_from(avail))]])
                elif how == "const":
                    v = draw(st.integers(0, 1))
                    conns.append([p, ["const", v, f"1'b{v}"]])
                elif how == "empty":
                    conns.append([p, None])
            if len(fresh) > 2:
                for p in bbtypes[ti][2]:
                    how = draw(st.sampled_from(["net", "net", "net", "empty", "omit"]))
                    if how == "net":
                        out = fresh.pop()
                        conns.append([p, ["id", out]])
                        avail.append(out)
                        defined.append(out)
                    elif how == "empty":
                        conns.append([p, None])
            if not conns:
                conns.append([(bbtypes[ti][1] + bbtypes[ti][2])[0], None])
            conns = [list(c) for c in draw(st.permutations(conns))]
            stmts.append({"k": "bb", "t": ti, "insts": [{"name": iname, "conns": conns}]})
    if not defined:
        out = fresh.pop()
        stmts.append({"k": "gate", "t": "buf", "insts": [{"name": "g99", "out": out, "ins": [["id", inputs[0]]]}]})
        defined.append(out)
    used = set()
    for s_ in stmts:
        if s_["k"] == "gate":
            for e in s_["insts"][0]["ins"]:
                used.update(vlog.expr_ids(e))
        elif s_["k"] == "assign":
            used.update(vlog.expr_ids(s_["assigns"][0]["rhs"]))
        else:
            for p, e in s_["insts"][0]["conns"]:
                if e is not None and p in bbtypes[s_["t"]][1]:
                    used.update(vlog.expr_ids(e))
    outputs = [n for n in defined if n not in used or draw(st.integers(0, 3)) == 0] or [defined[-1]]
    wires = [n for n in defined if n not in outputs and draw(st.integers(0, 2)) != 0]
    items = []

    def split(kind, nets):
        nets = list(nets)
        while nets:
            k = draw(st.integers(1, len(nets)))
            items.append({"k": kind, "nets": nets[:k]})
            nets = nets[k:]

    split("input", inputs)
    split("output", outputs)
    split("wire", wires)
    items += stmts
    if draw(st.booleans()):
        items = list(draw(st.permutations(items)))
    ports = list(draw(st.permutations(inputs + outputs)))
    return {"name": draw(st.sampled_from(["top", "c17", "my_mod", "M"])), "ports": ports, "items": items, "bbtypes": bbtypes}


@st.composite
def _case(draw, ctx):
    k = draw(st.integers(0, 5))
    if k == 0:
        fb = draw(st.integers(0, 3)) == 0  # combinational feedback, gates reading their own output included
        spec = draw(S.circuit_spec(min_inputs=1, max_inputs=4, min_gates=1, max_gates=8, max_fanin=4, pools=(VNAMES,),
                                   max_insts=draw(st.sampled_from([0, 1])), unconnected_pins=draw(st.booleans()),
                                   io_outputs=draw(st.booleans()), cyclic=fb, selfloops=fb))
        return {"kind": "writer", "spec": spec}
    mod = draw(_module(ctx))
    wsl = st.lists(st.integers(0, 7), min_size=5, max_size=40)
    ws = draw(st.one_of(st.none(), wsl, wsl, wsl))
    return {"kind": "ast", "mod": mod, "ws": ws}


def strategy(ctx):
    return _case(ctx)


def _norm(c):
    """Graph with the shared constant nodes renamed to a common name."""
    # netlists of the subset define no constant nodes of their own: every node of type 0 / 1 is
    # the parser's shared constant, whatever name the parser chose for it
    ren = {"0": "<const0>", "1": "<const1>"}
    g = c.graph
    nodes = {}
    for n in g.nodes:
        t = g.nodes[n].get("type")
        nn = ren[t] if t in ren else n
        nodes[nn] = (t, bool(g.nodes[n].get("output", False)))
    edges = set()
    for u, v in g.edges:
        tu = g.nodes[u].get("type")
        edges.add((ren[tu] if tu in ren else u, v))
    return nodes, edges


def _strip_comments(text):
    text = re.sub(r"/\*.*?\*/", " ", text, flags=re.DOTALL)
    return re.sub(r"//[^\n]*", "", text)


def _lib_bbs():
    return [cg.BlackBox("ff", ["CK", "D"], ["Q"])] + list(cg.genus_flops) + list(cg.dc_flops)


def _subset_ok(text):
    if "//" in text or "/*" in text or "\\" in text:
        return False
    if len(re.findall(r"\bmodule\b", text)) != 1:
        return False
    body = text[text.index(";") + 1:]
    body = body[: body.rindex("endmodule")]
    for stmt in body.split(";"):
        s = stmt.strip()
        if not s:
            continue
        if re.match(r"^(input|output|wire)\s", s):
            if "[" in s:
                return False
            continue
        if re.match(r"^assign\s+[A-Za-z_]\w*\s*=\s*([A-Za-z_]\w*|1'b[01])$", s):
            continue
        m = re.match(r"^([A-Za-z_]\w*)\s+([A-Za-z_]\w*)\s*\((.*)\)$", s, re.DOTALL)
        if m and m.group(1) in ("and", "nand", "or", "nor", "xor", "xnor", "buf", "not"):
            if re.search(r"[&|^~?.]", m.group(3)) or "(" in m.group(3):
                return False
            continue
        if m and m.group(1) in {b.name for b in _lib_bbs()}:
            if not re.match(r"^\s*(\.\s*\w+\s*\(\s*(\w+|1'b[01])?\s*\)\s*,?\s*)+$", m.group(3)):
                return False
            continue
        return False
    return True


def _compare(text, name, bbs, sem, labels):
    full = need(lib(cg.io.verilog_to_circuit, text, name, blackboxes=bbs), "full_parse", f"full parser on\n{text}\n")
    fast = need(lib(cg.io.verilog_to_circuit, text, name, blackboxes=bbs, fast=True), "fast_parse", f"fast parser on\n{text}\n")
    tail = f"\n--- text ---\n{text[:1500]}"
    if fast.name != full.name:
        raise Violation("diff|name", f"names {fast.name!r} (fast) vs {full.name!r} (full){tail}")
    for what in ("inputs", "outputs"):
        a = need(lib(getattr(fast, what)), "fast_" + what, f"fast result .{what}(){tail}")
        b = getattr(full, what)()
        if set(a) != set(b):
            raise Violation(f"diff|{what}", f"{what}: fast {sorted(a)} vs full {sorted(b)}{tail}")
    if set(fast.blackboxes) != set(full.blackboxes) or any(fast.blackboxes[k] is not full.blackboxes[k] for k in full.blackboxes):
        raise Violation("diff|instances", f"instances: fast {sorted(fast.blackboxes)} vs full {sorted(full.blackboxes)}{tail}")
    na, ea = _norm(fast)
    nb, eb = _norm(full)
    if set(na) != set(nb):
        raise Violation("diff|nodes", f"node sets differ: only fast {sorted(set(na) - set(nb))[:6]}, only full {sorted(set(nb) - set(na))[:6]}{tail}")
    for n in na:
        if na[n] != nb[n]:
            raise Violation("diff|attrs", f"node {n!r}: fast (type, output) = {na[n]}, full = {nb[n]}{tail}")
    if ea != eb:
        raise Violation("diff|edges", f"edges differ: only fast {sorted(ea - eb)[:6]}, only full {sorted(eb - ea)[:6]}{tail}")
    if sem is not None:
        free = sem.free()
        asg, W = refsim.std_assignment(sorted(free)) if len(free) <= 10 else (None, None)
        if asg is not None:
            nets, pins = sem.evaluate(asg, W)
            for nm, c in (("fast", fast), ("full", full)):
                a2 = dict(asg)
                for p in set(refsim.free_nodes(c)) - set(free):
                    a2[p] = 0
                bad = [v for v in refsim.ref_lint(c, undriven=False)]
                if bad:
                    raise Violation(f"{nm}|lint", f"{nm} parser result violates wiring rules {bad[:3]}{tail}")
                val = refsim.simulate(c, a2, W)
                for n, v in list(nets.items()) + list(pins.items()):
                    if n not in val or val[n] != v:
                        raise Violation(f"{nm}|value", f"{nm} parser: net/pin {n!r} does not compute what the netlist denotes{tail}")
            labels.append("ast_evaluated")
    return fast, full


_HISTORY = {"done": False}
_BEHAVIOURAL = """module hist(a, b, c, y, z);
  input a, b, c;
  output y, z;
  assign y = a & b;
  assign z = ~c | (a ^ b) | (a & b & c);
endmodule
"""


def check(case, ctx):
    # history: the full parser has read a behavioural netlist earlier in this process (its
    # synthesised gate names and_a_b, not_c, xor_a_b ... must not leak into later parses)
    if not _HISTORY["done"]:
        _HISTORY["done"] = True
        need(lib(cg.io.verilog_to_circuit, _BEHAVIOURAL, "hist"), "history_parse", "full parser on a behavioural netlist")
    labels = [case["kind"]]
    if case["kind"] == "file":
        path = os.path.join(NETLISTS, case["file"])
        with open(path) as f:
            text = f.read()
        if text.strip() and not _subset_ok(text):
            # a comment-free copy of the bundled netlist is a netlist of the subset too
            text = _strip_comments(text)
            labels.append("comments_stripped")
        if not text.strip() or not _subset_ok(text):
            return {"nontrivial": False, "labels": ["file_outside_subset"]}
        m = re.search(r"module\s+(\w+)", text)
        _compare(text, m.group(1), _lib_bbs(), None, labels)
        return {"nontrivial": True, "labels": labels + ["file_compared"]}
    if case["kind"] == "writer":
        from cgv import specs

        c, bbs = specs.build(case["spec"], with_bbs=True)
        text = need(lib(cg.io.circuit_to_verilog, c), "writer", "circuit_to_verilog")
        fast, full = _compare(text, c.name, bbs, None, labels)
        return {"nontrivial": len(c.graph.nodes) >= 5, "labels": labels}
    mod = case["mod"]
    sem = vlog.Semantics(mod)
    text = vlog.render(mod, case.get("ws"), glue_close="all")
    bbs = [cg.BlackBox(n, list(i), list(o)) for n, i, o in mod["bbtypes"]]
    _compare(text, mod["name"], bbs, sem, labels)
    stmts = [it for it in mod["items"] if it["k"] in ("gate", "assign", "bb")]
    gts = {it["t"] for it in stmts if it["k"] == "gate"}
    if any(n.startswith("_") for n in sem.all_nets()):
        labels.append("underscore_names")
    if sem.bbinsts:
        labels.append("blackbox")
    if case.get("ws") is not None:
        labels.append("ws_random")
    return {"nontrivial": len(stmts) >= 3 and len(gts) >= 2 and case.get("ws") is not None, "labels": labels}
