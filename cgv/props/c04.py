"""C04 -- miter output is 1 exactly when the compared circuits differ."""
import copy

from hypothesis import strategies as st

import circuitgraph as cg
from cgv import refsim, specs
from cgv import strategies as S
from cgv.harness import Violation, lib, need

ID = "C04"
RULE = (
    "cases: pairs (c0, c1) of blackbox-free lint-clean circuits -- c1 a copy, a function-preserving "
    "rewrite (De Morgan, double negation, buffer insertion, operand regrouping), c0 with one gate type "
    "changed, or an independent circuit sharing io names; self-miters (c1 omitted); startpoints None or "
    "a non-empty subset of the shared startpoints; endpoints None or a non-empty subset (singletons "
    "weighted) of the shared endpoints. Oracle: reference simulation of miter(...) over all valuations "
    "of its free nodes (tied inputs + one independent signal per untied startpoint per copy; sampled "
    "64-wide when > 12 free) equals OR over compared endpoints of (value in c0 != value in c1), both "
    "from reference simulation of the originals; inputs() = tied set, outputs() = {sat}; "
    "solve(m,{sat:True}) is False iff the table has no 1, else a valuation with sat=1 in the table. "
    "Non-trivial: circuits differ on some but not all valuations, or are equivalent but structurally "
    "different, or a startpoint is untied, or a strict endpoint subset is compared. Distinct by digest."
)
RULE += ' Added after seeded-change rounds 4-5: encoder-like names (g_X ...), parity-heavy circuits, 3..129 compared endpoints with one differing endpoint at every position (core); a ValueError is a refusal only when two generated names (c0_<n>, c1_<n>, startpoints, dif_<e>, sat) really coincide.'
ASSUMPTIONS = [
    "reference simulator cgv.refsim",
    "empty startpoints/endpoints collections mean 'default' (they are falsy in the code) and are not generated",
    "pairs always share at least one endpoint",
    "benign names only (no clash with c0_/c1_/dif_/sat)",
]
EXHAUSTIVE_NOTE = "core: all 8x8 pairs of single 2-input-gate circuits (buf/not with 1 input), both inputs tied / one tied; 1 and 2 endpoints"
EXAMPLES = {"quick": 1200, "thorough": 25000}

INV = {"and": "nand", "nand": "and", "or": "nor", "nor": "or", "xor": "xnor", "xnor": "xor"}


def _one(t, name="c"):
    k = 1 if t in ("buf", "not") else 2
    nodes = [["a", "input", [], False], ["b", "input", [], False]]
    nodes.append(["o", t, ["a", "b"][:k], True])
    nodes.append(["p", "buf", ["b"], True])
    return {"name": name, "nodes": nodes, "bbtypes": [], "insts": []}


def core(ctx):
    ts = S.NARY + S.UNARY
    for t0 in ts:
        for t1 in ts:
            for start in (None, ["a"], ["a", "b"]):
                for end in (None, ["o"], ["o", "p"]):
                    yield {"c0": _one(t0), "c1": _one(t1, "d"), "start": start, "end": end, "tables": None}
    for t0 in ts:
        yield {"c0": _one(t0), "c1": None, "start": None, "end": None, "tables": None}
        yield {"c0": _one(t0), "c1": None, "start": ["b"], "end": ["o"], "tables": None}
    # many compared endpoints (around multiples of 32), the two circuits differing in exactly one of them
    for n in (3, 31, 32, 33, 34, 63, 64, 65, 66, 97, 129):
        yield {"c0": _wide(n, None), "c1": _wide(n, None, "d"), "start": None, "end": None, "tables": None}
        for flip in range(n):
            yield {"c0": _wide(n, None), "c1": _wide(n, flip, "d"), "start": None, "end": None, "tables": None}


def _wide(n, flip, name="c"):
    inv = {"and": "nand", "nand": "and", "or": "nor", "nor": "or", "xor": "xnor", "xnor": "xor", "buf": "not", "not": "buf"}
    nodes = [["a", "input", [], False], ["b", "input", [], False], ["c", "input", [], False]]
    ts = S.NARY + S.UNARY
    for i in range(n):
        t = ts[i % len(ts)]
        fi = [["a", "b"], ["b", "c"], ["a", "c"], ["a", "b", "c"]][i % 4]
        if t in S.UNARY:
            fi = fi[:1]
        nodes.append([f"o{i}", inv[t] if i == flip else t, fi, True])
    return {"name": name, "nodes": nodes, "bbtypes": [], "insts": []}


def _rewrite(draw, spec):
    """Function-preserving rewrite of some gates; every original node keeps its function."""
    out = copy.deepcopy(spec)
    nodes = out["nodes"]
    fresh = [0]

    def new(t, fanin):
        n = f"rw{fresh[0]}"
        fresh[0] += 1
        nodes.append([n, t, list(fanin), False])
        return n

    for x in list(nodes):
        n, t, fanin, o = x
        if t not in S.ALL_GATES or not fanin:
            continue
        op = draw(st.sampled_from(["keep", "keep", "demorgan", "bufins", "regroup", "dneg"]))
        if op == "demorgan":
            if t in ("and", "nand", "or", "nor"):
                x[1] = {"and": "nor", "nand": "or", "or": "nand", "nor": "and"}[t]
                x[2] = [new("not", [f]) for f in fanin]
            elif t in ("xor", "xnor"):
                x[1] = INV[t]
                x[2] = [new("not", [fanin[0]])] + fanin[1:]
            elif t == "buf":
                x[1] = "not"
                x[2] = [new("not", fanin)]
            elif t == "not":
                x[1] = "nand"
        elif op == "bufins":
            i = draw(st.integers(0, len(fanin) - 1))
            x[2] = fanin[:i] + [new("buf", [fanin[i]])] + fanin[i + 1:]
        elif op == "regroup" and t in S.NARY and len(fanin) >= 3:
            base = {"and": "and", "nand": "and", "or": "or", "nor": "or", "xor": "xor", "xnor": "xor"}[t]
            x[2] = [new(base, fanin[:2])] + fanin[2:]
        elif op == "dneg":
            x[2] = [new("not", [new("not", [fanin[0]])])] + fanin[1:]
    return out


@st.composite
def _case(draw, ctx):
    if draw(st.integers(0, 5)) == 0:
        # parity-heavy circuits over few nets: wide xor/xnor gates that share operand pairs
        c0 = draw(S.circuit_spec(min_inputs=2, max_inputs=4, min_gates=2, max_gates=6, max_fanin=5, io_outputs=True,
                                 types=["xor", "xnor", "xor", "xnor", "and", "or", "not"], consts=False, min_fanin_nary=2))
    else:
        # names that look like the ones encoders / the miter derive from node names
        c0 = draw(S.circuit_spec(min_inputs=1, max_inputs=4, min_gates=1, max_gates=8, max_fanin=4, io_outputs=True,
                                 pools=(S.BENIGN, S.TOOLLIKE) if draw(st.integers(0, 2)) == 0 else (S.BENIGN,)))
    mode = draw(st.sampled_from(["copy", "rewrite", "rewrite", "mutate", "mutate", "indep", "self"]))
    if mode == "self":
        c1 = None
    elif mode == "copy":
        c1 = copy.deepcopy(c0)
        c1["name"] = "d"
    elif mode == "rewrite":
        c1 = _rewrite(draw, c0)
        c1["name"] = "d"
    elif mode == "mutate":
        c1 = copy.deepcopy(c0)
        c1["name"] = "d"
        gates = [x for x in c1["nodes"] if x[1] in S.ALL_GATES]
        g = draw(st.sampled_from(gates))
        if g[1] in S.UNARY:
            g[1] = "not" if g[1] == "buf" else "buf"
        else:
            g[1] = draw(st.sampled_from([t for t in S.NARY if t != g[1]]))
    else:
        pool2 = [f"m{i}" for i in range(40)]
        c1 = draw(S.circuit_spec(min_inputs=1, max_inputs=4, min_gates=1, max_gates=8, max_fanin=4,
                                 pools=(pool2,), name="d"))
        in0 = [x[0] for x in c0["nodes"] if x[1] == "input"]
        out0 = [x[0] for x in c0["nodes"] if x[3] and x[1] != "input"]
        in1 = [x[0] for x in c1["nodes"] if x[1] == "input"]
        out1 = [x[0] for x in c1["nodes"] if x[3] and x[1] != "input"]
        mp = {}
        k = draw(st.integers(0, min(len(in0), len(in1))))
        for a, b in zip(in1[:k], in0[:k]):
            mp[a] = b
        if not out0 or not out1:
            # make sure an endpoint is shared: compare a shared input-output instead
            pass
        ko = draw(st.integers(1, max(1, min(len(out0), len(out1)))))
        for a, b in zip(out1[:ko], out0[:ko]):
            mp[a] = b
        if draw(st.integers(0, 2)) == 0:
            # a name that is an input in one circuit and an internal gate in the other: it is a
            # startpoint of one circuit only, hence neither shared nor tied by default
            free_in0 = [n for n in in0 if n not in mp.values()]
            gates1 = [x[0] for x in c1["nodes"] if x[1] in S.ALL_GATES and not x[3] and x[0] not in mp]
            if free_in0 and gates1:
                mp[draw(st.sampled_from(gates1))] = draw(st.sampled_from(free_in0))
        for x in c1["nodes"]:
            x[0] = mp.get(x[0], x[0])
            x[2] = [mp.get(f, f) for f in x[2]]
    a = c0
    b = c1 if c1 is not None else c0
    sp0 = {x[0] for x in a["nodes"] if x[1] == "input"}
    sp1 = {x[0] for x in b["nodes"] if x[1] == "input"}
    ep0 = {x[0] for x in a["nodes"] if x[3]}
    ep1 = {x[0] for x in b["nodes"] if x[3]}
    shared_sp = sorted(sp0 & sp1)
    shared_ep = sorted(ep0 & ep1)
    start = None
    if shared_sp and draw(st.integers(0, 2)) == 0:
        start = draw(st.lists(st.sampled_from(shared_sp), min_size=1, max_size=len(shared_sp), unique=True))
    end = None
    if shared_ep and draw(st.integers(0, 2)) != 0:
        if draw(st.booleans()):
            end = [draw(st.sampled_from(shared_ep))]
        else:
            end = draw(st.lists(st.sampled_from(shared_ep), min_size=1, max_size=len(shared_ep), unique=True))
    tables = draw(st.lists(st.integers(0, (1 << 64) - 1), min_size=24, max_size=24))
    return {"c0": c0, "c1": c1, "start": start, "end": end, "tables": tables,
            "form": draw(st.sampled_from(["set", "set", "list", "tuple", "keys"])), "mode": mode}


def strategy(ctx):
    return _case(ctx)


def check(case, ctx):
    c0 = specs.build(case["c0"])
    c1 = specs.build(case["c1"]) if case["c1"] is not None else None
    for c in (c0, c1):
        if c is not None and refsim.ref_lint(c):
            raise specs.SpecError("generator produced non-lint-clean circuit")
    b = c1 if c1 is not None else c0
    sp0, sp1 = set(refsim.free_nodes(c0)), set(refsim.free_nodes(b))
    ep0 = {n for n in refsim.nodes(c0) if refsim.is_out(c0, n)}
    ep1 = {n for n in refsim.nodes(b) if refsim.is_out(b, n)}
    tied = set(case["start"]) if case["start"] else (sp0 & sp1)
    comp = set(case["end"]) if case["end"] else (ep0 & ep1)
    if not comp:
        return {"nontrivial": False, "labels": ["skipped_no_shared_endpoint"]}
    kw = {}
    form = case.get("form", "list" if case.get("as_list") else "set")
    conv = {"list": list, "set": set, "tuple": tuple, "iter": lambda x: iter(list(x)), "keys": lambda x: dict.fromkeys(x).keys()}[form]
    if case["start"]:
        kw["startpoints"] = conv(case["start"])
    if case["end"]:
        kw["endpoints"] = conv(case["end"])
    snap0 = refsim.snapshot(c0)
    kw_before = {k_: (sorted(v_) if not isinstance(v_, (list, tuple)) else list(v_)) for k_, v_ in kw.items()}
    out_m = lib(cg.tx.miter, c0, c1, **kw)
    # the miter names its nodes c0_<n>, c1_<n>, <startpoint>, dif_<endpoint> and sat: when two of these
    # coincide (a design with nodes `a` and `c0_a`, a node called `sat` ...) a ValueError is a clean
    # rejection of a real clash of generated names, not a wrong miter
    gen = [f"c0_{n_}" for n_ in c0.graph.nodes] + [f"c1_{n_}" for n_ in (c1 if c1 is not None else c0).graph.nodes]
    gen += sorted(tied) + [f"dif_{e_}" for e_ in sorted(comp)] + ["sat"]
    if not out_m.ok and isinstance(out_m.exc, ValueError) and len(set(gen)) != len(gen):
        return {"nontrivial": False, "labels": ["rejected_generated_name_clash"]}
    m = need(out_m, "miter", f"miter(c0, c1, startpoints={case['start']}, endpoints={case['end']}, as {form})")
    if refsim.snapshot(c0) != snap0:
        raise Violation("miter|mutates_argument", "miter modified c0")
    for k_, v_ in kw.items():
        now = sorted(v_) if not isinstance(v_, (list, tuple)) else list(v_)
        if now != kw_before[k_]:
            raise Violation("miter|mutates_collection_argument", f"miter modified the {k_} collection passed by the caller: {kw_before[k_]} -> {now}")
    if m.inputs() != tied:
        raise Violation("miter|inputs", f"miter inputs {sorted(m.inputs())} != tied startpoints {sorted(tied)}")
    if m.outputs() != {"sat"}:
        raise Violation("miter|outputs", f"miter outputs {sorted(m.outputs())}")
    exp_free = set(tied)
    exp_free |= {f"c0_{s}" for s in sp0 - tied} | {f"c1_{s}" for s in sp1 - tied}
    free = refsim.free_nodes(m)
    if set(free) != exp_free:
        raise Violation("miter|free_nodes", f"free signals of the miter {sorted(free)} != expected {sorted(exp_free)}")
    exhaustive = len(free) <= 12
    if exhaustive:
        asg, W = refsim.std_assignment(free)
    else:
        W = 64
        tb = case["tables"]
        asg = {n: tb[i % len(tb)] ^ (i // len(tb)) for i, n in enumerate(free)}
    vm = refsim.simulate(m, asg, W)
    a0 = {s: (asg[s] if s in tied else asg[f"c0_{s}"]) for s in sp0}
    a1 = {s: (asg[s] if s in tied else asg[f"c1_{s}"]) for s in sp1}
    v0 = refsim.simulate(c0, a0, W)
    v1 = refsim.simulate(b, a1, W)
    exp = 0
    for e in comp:
        exp |= v0[e] ^ v1[e]
    if vm["sat"] != exp:
        d = vm["sat"] ^ exp
        j = refsim.bits(d)[0]
        val = {n: (asg[n] >> j) & 1 for n in free}
        raise Violation(
            "miter|sat_value",
            f"under {val}: sat={(vm['sat'] >> j) & 1} but endpoints differ={(exp >> j) & 1} (compared {sorted(comp)}, tied {sorted(tied)})",
        )
    labels = [case.get("mode", "core")]
    if exhaustive:
        r = need(lib(cg.sat.solve, m, {"sat": True}), "miter_solve", "solve(miter,{sat:True})")
        if r is False:
            if exp:
                raise Violation("miter|solve_false_but_differ", "solve(miter,{sat:True}) is False although the circuits differ")
            labels.append("equivalent")
        else:
            if not exp:
                raise Violation("miter|solve_sat_but_equal", "solve(miter,{sat:True}) found a valuation although the circuits agree everywhere")
            j = sum((1 << i) for i, n in enumerate(free) if r[n])
            if not (exp >> j) & 1:
                raise Violation("miter|solve_witness", "valuation returned for sat=1 does not distinguish the circuits")
            labels.append("differ")
    full = (1 << W) - 1
    untied = bool((sp0 | sp1) - tied)
    strict = comp != (ep0 & ep1)
    struct_diff = case["c1"] is not None and case["c1"]["nodes"] != case["c0"]["nodes"]
    nontriv = (exp not in (0, full)) or (exp == 0 and struct_diff) or untied or strict
    if untied:
        labels.append("untied_startpoint")
    if strict:
        labels.append("strict_endpoint_subset")
    if len(comp) == 1:
        labels.append("single_endpoint")
    return {"nontrivial": bool(nontriv), "labels": labels}
