"""C07 -- construction API never leaves an illegally wired circuit (histories)."""
import copy

from hypothesis import strategies as st

import circuitgraph as cg
from cgv import refsim, specs
from cgv.harness import Violation, lib

ID = "C07"
RULE = (
    "cases: histories of up to 40 API calls (add with default flags or uid=True, connect, disconnect, "
    "remove, set_output, add_blackbox, add_subcircuit, fill_blackbox), generated two ways: (blind) "
    "arguments drawn from a 16-name universe that contains digit-leading, empty, dotted pin-like and "
    "prefix-like names, unsupported types, duplicate and self-referential fan-in/fan-out lists; "
    "(model-based) the history is grown against a live circuit so that each call's arguments are chosen "
    "from the nodes, edges and instances that exist at that point (plus missing ones), as a rule-based "
    "state machine would; start state = empty "
    "circuit, a small combinational circuit, or a circuit with a connected blackbox. After every call "
    "(returned or raised) an independent checker verifies the wiring invariants listed in the property "
    "on c.graph / c.blackboxes (pins removed by the caller itself are excused); a raised call must not "
    "add an edge; when the check's own model of the rules says the call is illegal because of type, "
    "name or connection the exception must be ValueError; add(uid=True) must leave every existing node's "
    "attributes and incident edges (except to the new node) untouched. One-directional: calls the rules "
    "allow but the implementation refuses are not violations. Non-trivial: a history in which >= 1 call "
    "was rejected and >= 1 later call succeeded. Distinct by digest of the history."
)
RULE += ' Added after seeded-change rounds 4-5: targeted histories: a blackbox output connected to a list of driverless bufs; instance names equal to <inst>_<nested instance> or <inst>.<x>; parent nodes named like nested pins.'
ASSUMPTIONS = [
    "invariant checker and legality model written from the rules in property C07 / circuit.py documentation",
    "children for add_subcircuit / fill_blackbox come from a fixed library of 8 small circuits (one with a nested blackbox, two with the pin names of a blackbox type but other roles)",
]
EXHAUSTIVE_NOTE = "core: every single call from a catalogue of ~60 calls on each of the 3 start states, and every ordered pair of calls from a 24-call sub-catalogue on the empty circuit"
EXAMPLES = {"quick": 1500, "thorough": 30000}

UNIVERSE = ["a", "b", "c", "g", "h", "o", "u", "v", "u.x", "u.s", "u_x", "u_s", "u_g", "v.d", "1z", "", "u_x.d", "w_x.q", "u.ff.d"]
TYPES = ["and", "or", "xor", "nand", "buf", "not", "input", "0", "1", "x", "bb_input", "bb_output",
         "foo", "AND", ""]
BBTYPES = [["ha", ["x", "y"], ["s"]], ["ff", ["d", "clk"], ["q"]], ["src", [], ["s"]], ["ha2", ["x"], ["s", "g"]],
           ["both", ["p", "d"], ["p", "q"]]]
INSTS = ["u", "v", "w", "u_x", "1u", "", "u.ff", "u.x"]

CHILDREN = [
    {"name": "c0", "nodes": [["x", "input", [], False], ["y", "input", [], False], ["s", "xor", ["x", "y"], True]], "bbtypes": [], "insts": []},
    {"name": "c1", "nodes": [["x", "input", [], False], ["g", "not", ["x"], False], ["s", "buf", ["g"], True], ["g2", "and", ["x", "g"], True]], "bbtypes": [], "insts": []},
    {"name": "c2", "nodes": [["d", "input", [], False], ["clk", "input", [], False], ["q", "and", ["d", "clk"], True]], "bbtypes": [], "insts": []},
    {"name": "c3", "nodes": [["x", "input", [], False], ["y", "input", [], False], ["m", "buf", [], False], ["s", "or", ["m", "y"], True]],
     "bbtypes": [["inner", ["d"], ["q"]]], "insts": [["x", 0, {"d": "x", "q": "m"}]]},
    {"name": "c4", "nodes": [["s", "1", [], True]], "bbtypes": [], "insts": []},
    {"name": "c5", "nodes": [["x", "input", [], True], ["s", "buf", ["x"], True], ["g", "nand", ["x", "s"], True]], "bbtypes": [], "insts": []},
    # same io names as blackbox type 'ha' (x, y, s) but with the roles swapped / all outputs
    {"name": "c6", "nodes": [["s", "input", [], False], ["x", "not", ["s"], True], ["y", "buf", ["s"], True]], "bbtypes": [], "insts": []},
    {"name": "c7", "nodes": [["k", "1", [], False], ["x", "buf", ["k"], True], ["y", "not", ["k"], True], ["s", "and", ["x", "y"], True]], "bbtypes": [], "insts": []},
]

STARTS = [
    {"name": "c", "nodes": [], "bbtypes": [], "insts": []},
    {"name": "c", "nodes": [["a", "input", [], False], ["b", "input", [], False], ["g", "and", ["a", "b"], False], ["o", "buf", ["g"], True]], "bbtypes": [], "insts": []},
    {"name": "c", "nodes": [["a", "input", [], False], ["b", "input", [], False], ["o", "buf", [], True], ["h", "not", ["o"], True]],
     "bbtypes": [["ha", ["x", "y"], ["s"]]], "insts": [["u", 0, {"x": "a", "y": "b", "s": "o"}]]},
]

CATALOGUE = [
    ["add", "a", "input", None, None, False, False],
    ["add", "g", "and", ["a", "b"], None, True, False],
    ["add", "g", "and", ["a", "zz"], "o", False, False],
    ["add", "h", "buf", ["a", "b"], None, False, False],
    ["add", "h", "not", "a", ["o", "o"], False, False],
    ["add", "h", "not", "h", None, False, False],
    ["add", "h", "input", "a", None, False, False],
    ["add", "c", "0", None, ["g", "a"], False, False],
    ["add", "c", "foo", None, None, False, False],
    ["add", "1z", "and", None, None, False, False],
    ["add", "", "and", None, None, False, False],
    ["add", "a", "or", ["b"], None, False, True],
    ["add", "g", "xor", ["a", "g"], ["o"], False, True],
    ["add", "u.x", "buf", "a", None, False, False],
    ["add", "u.x", "bb_input", "a", None, False, False],
    ["add", "c", "bb_output", None, "g", False, False],
    ["add", "c", "bb_output", None, "o", False, False],
    ["add", "c", "bb_input", "a", "g", False, False],
    ["connect", "a", "g"], ["connect", "g", "a"], ["connect", ["a", "b"], "o"], ["connect", "a", ["g", "o"]],
    ["connect", "zz", "g"], ["connect", "a", "zz"], ["connect", "u.s", "g"], ["connect", "u.s", "h"],
    ["connect", "u.x", "g"], ["connect", "g", "u.x"], ["connect", "g", "g"], ["connect", [], "g"],
    ["disconnect", "a", "g"], ["disconnect", "u.s", "o"], ["disconnect", "zz", "g"],
    ["remove", "g"], ["remove", ["a", "zz"]], ["remove", "u.x"], ["remove", "o"],
    ["set_output", "g", True], ["set_output", ["a", "o"], False], ["set_output", "zz", True],
    ["add_blackbox", 0, "v", {"x": "a", "y": "b"}],
    ["add_blackbox", 0, "v", {"x": "a", "s": "g"}],
    ["add_blackbox", 0, "v", {"x": "zz"}],
    ["add_blackbox", 0, "v", {"nope": "a"}],
    ["add_blackbox", 0, "u", {}],
    ["add_blackbox", 1, "1u", {}],
    ["add_blackbox", 2, "v", {"s": "o"}],
    ["add_blackbox", 0, "v", {"s": "o"}],
    ["add_subcircuit", 0, "u", {"x": "a", "y": "b"}],
    ["add_subcircuit", 0, "v", {"x": "a", "s": "o"}],
    ["add_subcircuit", 0, "v", {"x": "zz"}],
    ["add_subcircuit", 0, "v", {"nope": "a"}],
    ["add_subcircuit", 1, "u", {"x": "g", "s": "g"}],
    ["add_subcircuit", 3, "v", {}],
    ["add_subcircuit", 3, "u", {"s": "a"}],
    ["add_subcircuit", 5, "v", {"x": "a"}],
    ["fill_blackbox", "u", 0], ["fill_blackbox", "u", 1], ["fill_blackbox", "v", 0], ["fill_blackbox", "u", 3],
    ["fill_blackbox", "u", 6], ["fill_blackbox", "u", 7], ["add_blackbox", 4, "v", {}], ["add_blackbox", 4, "w", {"d": "a", "q": "o"}],
]
PAIRS = CATALOGUE[:6] + CATALOGUE[11:13] + CATALOGUE[18:22] + CATALOGUE[33:35] + CATALOGUE[40:44] + CATALOGUE[48:50] + CATALOGUE[56:58]


def _uid_storms():
    # many uid=True adds of one base name (the probing sequence of uid() changes after 10 collisions)
    ops = [["add", "a", "input", None, None, False, False], ["add", "b", "input", None, None, False, False]]
    ops += [["add", "w", ["not", "buf", "and", "or"][i % 4], ["a"] if i % 4 < 2 else ["a", "b"], None, bool(i % 3 == 0), True] for i in range(18)]
    yield {"start": 0, "ops": ops}
    # user-made look-alike names w, w_0 .. w_10, w_70, w_490 exist already
    ops = [["add", "a", "input", None, None, False, False], ["add", "b", "input", None, None, False, False],
           ["add", "w", "not", "a", None, False, False]]
    for sfx in list(range(11)) + [70, 490]:
        ops.append(["add", f"w_{sfx}", "not" if sfx % 2 else "buf", "b", None, sfx == 70, False])
    ops += [["add", "w", "and", ["a", "b"], None, True, True], ["add", "w", "input", None, None, False, True],
            ["add", "w", "not", "a", None, False, True], ["add", "w_7", "or", ["a", "w_70"], None, False, True]]
    yield {"start": 0, "ops": ops}
    yield {"start": 1, "ops": [["add", "g", "xor", ["a", "b"], "o", False, True] for _ in range(16)]}


def _targeted():
    # a blackbox output connected to several driverless bufs in one call
    for i, pin in ((2, "s"), (1, "q"), (3, "g")):
        for tgt in (["b1", "b2"], ["b1", "b1"], ["b2", "b1", "b3"]):
            yield {"start": 0, "ops": [["add_blackbox", i, "v", {}], ["add", "b1", "buf", None, None, False, False],
                                       ["add", "b2", "buf", None, None, True, False], ["add", "b3", "buf", None, None, True, False],
                                       ["connect", f"v.{pin}", tgt]]}
            yield {"start": 0, "ops": [["add_blackbox", i, "v", {}], ["add", "b1", "buf", None, None, False, False],
                                       ["add", "b2", "buf", None, None, True, False], ["add", "b3", "buf", None, None, True, False],
                                       ["connect", [f"v.{pin}"], tgt[0]], ["connect", [f"v.{pin}"], tgt[1:]]]}
    # filling an instance whose child carries a nested blackbox, while the prefixed nested name is taken
    for i in range(len(BBTYPES)):
        yield {"start": 2, "ops": [["add_blackbox", i, "u_x", {}], ["fill_blackbox", "u", 3]]}
        yield {"start": 2, "ops": [["add_blackbox", i, "u_x", {}], ["fill_blackbox", "u", 3], ["fill_blackbox", "u", 0]]}
        yield {"start": 0, "ops": [["add", "a", "input", None, None, False, False], ["add_blackbox", 0, "w", {"x": "a", "y": "a"}],
                                   ["add_blackbox", i, "w_x", {}], ["fill_blackbox", "w", 3], ["add_subcircuit", 3, "w", {}]]}
        yield {"start": 0, "ops": [["add_blackbox", i, "w_x", {}], ["add_subcircuit", 3, "w", {}]]}
        # an instance whose name extends another instance's name with a dot; the shorter one is filled
        yield {"start": 2, "ops": [["add_blackbox", i, "u.ff", {}], ["fill_blackbox", "u", 0]]}
        yield {"start": 2, "ops": [["add_blackbox", i, "u.ff", {}], ["add_blackbox", i, "u_ff", {}], ["fill_blackbox", "u", 0]]}
    # ordinary parent nodes named like the pins a nested blackbox gets when its parent is spliced in
    for t in ("and", "buf", "input"):
        for nm in ("w_x.d", "w_x.q"):
            yield {"start": 0, "ops": [["add", nm, t, None, None, True, False], ["add_subcircuit", 3, "w", {}]]}
            yield {"start": 0, "ops": [["add", "a", "input", None, None, False, False], ["add_blackbox", 0, "w", {"x": "a", "y": "a"}],
                                       ["add", nm, t, None, None, True, False], ["fill_blackbox", "w", 3]]}


def core(ctx):
    yield from _uid_storms()
    yield from _targeted()
    for s in range(3):
        for op in CATALOGUE:
            yield {"start": s, "ops": [op]}
    for a in PAIRS:
        for b in PAIRS:
            yield {"start": 0, "ops": [["add", "a", "input", None, None, False, False], ["add", "b", "input", None, None, False, False], a, b]}


def _names(maxn=3):
    one = st.sampled_from(UNIVERSE)
    good = st.sampled_from(["a", "b", "c", "g", "h", "o"])
    return st.one_of(one, good, good, st.lists(st.one_of(one, good), min_size=0, max_size=maxn))


def _conns(pins):
    return st.dictionaries(st.sampled_from(pins + ["nope"]), st.sampled_from(UNIVERSE), max_size=3)


def _op():
    name = st.sampled_from(UNIVERSE + ["a", "b", "c", "g", "h", "o", "u_g", "u_s"])
    add = st.builds(
        lambda n, t, fi, fo, o, u: ["add", n, t, fi, fo, o, u],
        name, st.sampled_from(TYPES + ["and", "or", "xor", "nand", "buf", "not", "input", "buf", "not"]), st.one_of(st.none(), _names()), st.one_of(st.none(), st.none(), _names(2)),
        st.booleans(), st.sampled_from([False, False, True]),
    )
    conn = st.builds(lambda u, v: ["connect", u, v], _names(), _names())
    disc = st.builds(lambda u, v: ["disconnect", u, v], _names(2), _names(2))
    rem = st.builds(lambda n: ["remove", n], _names(2))
    so = st.builds(lambda n, f: ["set_output", n, f], _names(2), st.booleans())
    abb = st.integers(0, len(BBTYPES) - 1).flatmap(
        lambda i: st.builds(lambda nm, c: ["add_blackbox", i, nm, c], st.sampled_from(INSTS + ["u", "v", "w"]),
                            _conns(BBTYPES[i][1] + BBTYPES[i][2]))
    )
    asc = st.integers(0, len(CHILDREN) - 1).flatmap(
        lambda i: st.builds(lambda nm, c: ["add_subcircuit", i, nm, c], st.sampled_from(INSTS + ["u", "v", "w"]),
                            _conns([x[0] for x in CHILDREN[i]["nodes"] if x[1] == "input" or x[3]]))
    )
    fill = st.builds(lambda nm, i: ["fill_blackbox", nm, i], st.sampled_from(INSTS + ["u", "v", "w"]),
                     st.sampled_from([0, 0, 0, 1, 2, 2, 3, 3, 4, 5, 6, 7]))
    return st.one_of(add, add, add, conn, conn, disc, rem, so, abb, abb, asc, fill, fill)


@st.composite
def _stateful_case(draw, ctx):
    """Model-based generation: the history is grown step by step against a live circuit,
    so that arguments can refer to what exists at that point (existing nodes, registered
    instances, legal and illegal targets) -- the way a rule-based state machine draws its
    rule arguments.  The result is still a plain op list that check() re-executes."""
    start = draw(st.integers(0, 2))
    c, sb = specs.build(copy.deepcopy(STARTS[start]), with_bbs=True)
    bbs = [cg.BlackBox(n, list(i), list(o)) for n, i, o in BBTYPES]
    if sb:
        bbs[0] = sb[0]
    children = [specs.build(s) for s in CHILDREN]
    ops = []
    fresh = 0
    for _ in range(draw(st.integers(3, 30))):
        nodes = sorted(c.graph.nodes)
        insts = sorted(c.blackboxes)
        anynode = st.sampled_from(nodes + ["zz"]) if nodes else st.just("zz")
        kind = draw(st.sampled_from(["add", "add", "add", "connect", "connect", "disconnect", "remove", "set_output",
                                     "add_blackbox", "add_subcircuit", "fill", "fill"]))
        if kind == "add":
            uid = draw(st.integers(0, 3)) == 0
            if uid and nodes:
                n = draw(st.sampled_from(nodes))
            else:
                n = f"w{fresh}"
                fresh += 1
            t = draw(st.sampled_from(["and", "or", "xor", "nand", "nor", "xnor", "buf", "buf", "not", "input", "0", "1", "bb_output", "bb_input"]))
            k = draw(st.integers(0, 3))
            fi = draw(st.lists(anynode, min_size=k, max_size=k)) if k else None
            fo = draw(st.one_of(st.none(), st.none(), anynode, st.lists(anynode, min_size=1, max_size=2)))
            op = ["add", n, t, fi, fo, draw(st.booleans()), uid]
        elif kind == "connect":
            g_ = c.graph
            bbo = [x for x in nodes if g_.nodes[x].get("type") == "bb_output"]
            free_bufs = [x for x in nodes if g_.nodes[x].get("type") == "buf" and not g_.pred[x]]
            if bbo and free_bufs and draw(st.integers(0, 2)) == 0:
                # from a blackbox output to one or several driverless bufs
                op = ["connect", draw(st.sampled_from(bbo)), draw(st.lists(st.sampled_from(free_bufs), min_size=1, max_size=3))]
            else:
                op = ["connect", draw(st.one_of(anynode, st.lists(anynode, min_size=1, max_size=2))),
                      draw(st.one_of(anynode, st.lists(anynode, min_size=1, max_size=2)))]
        elif kind == "disconnect":
            edges = sorted(c.graph.edges)
            if edges and draw(st.booleans()):
                u, v = draw(st.sampled_from(edges))
                op = ["disconnect", u, v]
            else:
                op = ["disconnect", draw(anynode), draw(anynode)]
        elif kind == "remove":
            op = ["remove", draw(st.one_of(anynode, st.lists(anynode, min_size=1, max_size=2)))]
        elif kind == "set_output":
            op = ["set_output", draw(st.one_of(anynode, st.lists(anynode, min_size=1, max_size=2))), draw(st.booleans())]
        elif kind == "add_blackbox":
            i = draw(st.integers(0, len(BBTYPES) - 1))
            pins = BBTYPES[i][1] + BBTYPES[i][2]
            conns = {}
            for pn in pins:
                if draw(st.booleans()):
                    conns[pn] = draw(anynode)
            nm = draw(st.sampled_from(["u", "v", "w", "i%d" % fresh] + insts + [f"{x}_x" for x in insts] + [f"{x}.ff" for x in insts]))
            op = ["add_blackbox", i, nm, conns]
        elif kind == "add_subcircuit":
            i = draw(st.integers(0, len(CHILDREN) - 1))
            io = [x[0] for x in CHILDREN[i]["nodes"] if x[1] == "input" or x[3]]
            conns = {}
            for pn in io:
                if draw(st.booleans()):
                    conns[pn] = draw(anynode)
            nm = draw(st.sampled_from(["u", "v", "w", "s%d" % fresh]))
            op = ["add_subcircuit", i, nm, conns]
        else:
            nm = draw(st.sampled_from(insts + ["u"])) if insts else "u"
            op = ["fill_blackbox", nm, draw(st.sampled_from([0, 0, 1, 2, 3, 4, 5, 6, 7]))]
        ops.append(op)
        _apply(c, op, children, bbs)
    return {"start": start, "ops": ops}


def strategy(ctx):
    blind = st.builds(lambda s, ops: {"start": s, "ops": ops}, st.integers(0, 2), st.lists(_op(), min_size=1, max_size=40))
    return st.one_of(blind, _stateful_case(ctx), _stateful_case(ctx))


# ------------------------------------------------------------------ checker
def _invariants(c, excused):
    g = c.graph
    for n in g.nodes:
        t = g.nodes[n].get("type")
        if t not in refsim.SUPPORTED:
            return f"node {n!r} has unsupported/missing type {t!r}"
        nin = len(g.pred[n])
        if t in ("input", "0", "1", "x", "bb_output") and nin:
            return f"{t} node {n!r} has fan-in {sorted(g.pred[n])}"
        if t in ("buf", "not", "bb_input") and nin > 1:
            return f"{t} node {n!r} has {nin} drivers"
        if t == "bb_input" and g.succ[n]:
            return f"bb_input {n!r} has fan-out {sorted(g.succ[n])}"
        if t == "bb_output":
            ss = list(g.succ[n])
            if len(ss) > 1:
                return f"bb_output {n!r} drives {len(ss)} nodes"
            if ss and g.nodes[ss[0]].get("type") != "buf":
                return f"bb_output {n!r} drives non-buf {ss[0]!r}"
    for name, bb in c.blackboxes.items():
        for p, want in [(p, "bb_input") for p in bb.inputs()] + [(p, "bb_output") for p in bb.outputs()]:
            pn = f"{name}.{p}"
            if pn in excused:
                continue
            if pn not in g.nodes:
                return f"registered instance {name!r} lacks pin node {pn!r}"
            if g.nodes[pn].get("type") != want:
                return f"pin {pn!r} of instance {name!r} has type {g.nodes[pn].get('type')!r}"
    return None


def _as_list(x):
    if x is None:
        return []
    if isinstance(x, str):
        return [x]
    return list(x)


def _connect_illegal(c, us, vs):
    """Model of the wiring rules: reason string if connect(us, vs) must be rejected."""
    g = c.graph
    us, vs = _as_list(us), _as_list(vs)
    if not us or not vs:
        return None
    for n in us + vs:
        if n not in g.nodes:
            return f"endpoint {n!r} missing"
    new = {(u, v) for u in us for v in vs if not g.has_edge(u, v)}
    for v in set(vs):
        t = g.nodes[v].get("type")
        add = {u for (u, w) in new if w == v}
        if not add:
            continue
        if t in ("input", "0", "1", "x", "bb_output"):
            return f"connect into {t}"
        if t in ("buf", "not", "bb_input") and len(set(g.pred[v]) | add) > 1:
            return f"second driver on {t}"
    for u in set(us):
        t = g.nodes[u].get("type")
        add = {w for (x, w) in new if x == u}
        if not add:
            continue
        if t == "bb_input":
            return "connect from bb_input"
        if t == "bb_output":
            tot = set(g.succ[u]) | add
            if len(tot) > 1:
                return "second load on bb_output"
            if any(g.nodes[w].get("type") != "buf" for w in add):
                return "bb_output to non-buf"
    return None


def _illegal_reason(c, op):
    """Reason (type/name/connection) why the rules forbid op, or None if the model has no objection."""
    k = op[0]
    g = c.graph
    if k == "add":
        _, n, t, fi, fo, out, uid = op
        if t not in refsim.SUPPORTED:
            return "unsupported type"
        if n == "" or n[0] in "0123456789":
            return "illegal name"
        fi, fo = _as_list(fi), _as_list(fo)
        if t in ("buf", "not", "bb_input") and len(set(fi)) > 1:
            return "arity"
        if t in ("input", "0", "1", "x", "bb_output") and fi:
            return "fan-in on source type"
        if uid or n not in g.nodes:
            for f in fi + fo:
                if f != n and f not in g.nodes:
                    return "missing endpoint"
        return None
    if k == "connect":
        return _connect_illegal(c, op[1], op[2])
    return None


def _apply(c, op, children, bbs):
    k = op[0]
    if k == "add":
        _, n, t, fi, fo, out, uid = op
        return lib(c.add, n, t, fanin=fi, fanout=fo, output=out, uid=uid)
    if k == "connect":
        return lib(c.connect, op[1], op[2])
    if k == "disconnect":
        return lib(c.disconnect, op[1], op[2])
    if k == "remove":
        return lib(c.remove, op[1])
    if k == "set_output":
        return lib(c.set_output, op[1], op[2])
    if k == "add_blackbox":
        return lib(c.add_blackbox, bbs[op[1]], op[2], dict(op[3]))
    if k == "add_subcircuit":
        return lib(c.add_subcircuit, children[op[1]], op[2], dict(op[3]))
    if k == "fill_blackbox":
        return lib(c.fill_blackbox, op[1], children[op[2]])
    raise ValueError(k)


def check(case, ctx):
    start = copy.deepcopy(STARTS[case["start"]])
    c, sb = specs.build(start, with_bbs=True)
    bbs = [cg.BlackBox(n, list(i), list(o)) for n, i, o in BBTYPES]
    if sb:
        bbs[0] = sb[0]
    children = [specs.build(s) for s in CHILDREN]
    child_snaps = [refsim.snapshot(ch) for ch in children]
    excused = set()
    rejected_at = None
    nontriv = False
    labels = set()
    bad = _invariants(c, excused)
    if bad:
        raise specs.SpecError(f"start state violates invariants: {bad}")
    for step, op in enumerate(case["ops"]):
        g = c.graph
        edges0 = set(g.edges)
        nodes0 = {n: dict(g.nodes[n]) for n in g.nodes}
        reason = _illegal_reason(c, op)
        if op[0] == "remove":
            excused.update(_as_list(op[1]))
        out = _apply(c, op, children, bbs)
        where = f"step {step} {op!r}"
        g = c.graph
        if out.ok:
            labels.add(op[0] + "_ok")
            if rejected_at is not None:
                nontriv = True
            if op[0] == "add" and op[6]:
                new = out.value
                if new in nodes0:
                    raise Violation("uid|reused_name", f"{where}: add(uid=True) returned existing name {new!r}")
                for n, attrs in nodes0.items():
                    if n not in g.nodes or dict(g.nodes[n]) != attrs:
                        raise Violation("uid|overwrote_node", f"{where}: existing node {n!r} changed from {attrs} to {dict(g.nodes[n]) if n in g.nodes else None}")
                if {e for e in g.edges if new not in e} != edges0:
                    raise Violation("uid|edges_changed", f"{where}: edges among existing nodes changed")
        else:
            labels.add(op[0] + "_rejected")
            rejected_at = step
            added = set(g.edges) - edges0
            if added:
                raise Violation(
                    f"rejected_call_added_edge|{op[0]}",
                    f"{where}: raised {out.text} but added edges {sorted(added)}",
                )
            if reason is not None and out.type != "ValueError":
                raise Violation(
                    f"wrong_exception|{op[0]}|{out.type}",
                    f"{where}: illegal call ({reason}) raised {out.text} instead of ValueError",
                )
        bad = _invariants(c, excused)
        if bad:
            raise Violation(
                f"invariant|{op[0]}|{'ok' if out.ok else 'rejected'}|" + bad.split(" ")[0],
                f"{where} ({'returned' if out.ok else 'raised ' + out.text}): {bad}",
            )
        for ch, sn in zip(children, child_snaps):
            if refsim.snapshot(ch) != sn:
                raise Violation(f"child_modified|{op[0]}", f"{where}: the child circuit argument was modified")
    return {"nontrivial": nontriv, "labels": sorted(labels)}
