"""C09 -- unrolling equals iterated execution."""
from hypothesis import strategies as st

import circuitgraph as cg
from cgv import refsim, specs
from cgv import strategies as S
from cgv.harness import Violation, lib, need

ID = "C09"
RULE = (
    "cases: (unroll) lint-clean acyclic blackbox-free circuits, an injective pairing of a subset of the "
    "outputs to a subset of the inputs as state_io (also empty), n in 1..6; (seq) generated sequential "
    "circuits with 1..4 flops of one blackbox type (pins clk, d, optional rst/en; outputs q, optional "
    "unconnected qn), D fed from any net, Q driving a buf (occasionally unconnected), every combination "
    "of add_flop_outputs, initial_values in {None,'0','1', per-flop dict}, remove_unloaded, ignore_pins, "
    "n in 1..4. Oracle: the unrolled circuit is simulated by the reference simulator over all valuations "
    "of its free signals (<= 11, else 64 drawn) and compared at io_map[o][t] / io_map[i][t] with t+1 "
    "iterated reference simulations of the original circuit (state outputs fed back to their paired "
    "inputs; for flops Q(0) from the initial values or free and Q(t+1) = D(t)); the free signals must be "
    "exactly the step-0 state inputs plus the per-step copies of the other inputs; io_map has one list "
    "of length n per io node; flop D copies are outputs iff add_flop_outputs; no copy of an ignored or "
    "non-D/Q pin remains; remove_unloaded leaves no unloaded input, otherwise clk copies remain; result "
    "is lint-clean. Non-trivial: n >= 2 and some output at a step t >= 1 depends on a step-0 state "
    "input or an earlier step's input. Distinct by digest."
)
RULE += ' Added after seeded-change rounds 4-5: one BlackBox object per flop (equal, not identical); positional calls in the documented parameter order.'
ASSUMPTIONS = [
    "reference simulator cgv.refsim",
    "non-D/Q flop output pins (qn) are left unconnected: the library documents that such pins are dropped",
    "benign names (no clash with *_cg_unroll_*, unrolled_*)",
]
EXHAUSTIVE_NOTE = "core: 1-bit toggle, 2-bit shift register, 2-bit counter, n = 1..4, all option combinations"
EXAMPLES = {"quick": 1300, "thorough": 25000}

FF = ["ff", ["clk", "d"], ["q"]]


def _toggle():
    return {"name": "tog", "nodes": [["clk", "input", [], False], ["en", "input", [], False], ["qb", "buf", [], True],
                                      ["nx", "xor", ["qb", "en"], False]],
            "bbtypes": [FF], "insts": [["f0", 0, {"clk": "clk", "d": "nx", "q": "qb"}]]}


def _shift():
    return {"name": "sh", "nodes": [["clk", "input", [], False], ["si", "input", [], False], ["qa", "buf", [], False],
                                     ["qbb", "buf", [], True], ["o", "and", ["qa", "qbb"], True]],
            "bbtypes": [FF], "insts": [["f0", 0, {"clk": "clk", "d": "si", "q": "qa"}], ["f1", 0, {"clk": "clk", "d": "qa", "q": "qbb"}]]}


def _counter():
    return {"name": "cnt", "nodes": [["clk", "input", [], False], ["b0", "buf", [], True], ["b1", "buf", [], True],
                                      ["n0", "not", ["b0"], False], ["n1", "xor", ["b0", "b1"], False]],
            "bbtypes": [FF], "insts": [["f0", 0, {"clk": "clk", "d": "n0", "q": "b0"}], ["f1", 0, {"clk": "clk", "d": "n1", "q": "b1"}]]}


def core(ctx):
    for mk in (_toggle, _shift, _counter):
        for n in range(1, 5):
            for afo in (False, True):
                for iv in (None, "0", "1", {"f0": "1"}):
                    for ru in (False, True):
                        yield {"kind": "seq", "spec": mk(), "n": n, "afo": afo, "init": iv, "ru": ru, "ignore": None,
                               "d": "d", "q": "q", "tables": None}
    # plain unroll of a half adder with carry fed back
    spec = {"name": "c", "nodes": [["a", "input", [], False], ["ci", "input", [], False], ["s", "xor", ["a", "ci"], True],
                                    ["co", "and", ["a", "ci"], True]], "bbtypes": [], "insts": []}
    for n in range(1, 7):
        yield {"kind": "unroll", "spec": spec, "n": n, "state": {"co": "ci"}, "tables": None}
        yield {"kind": "unroll", "spec": spec, "n": n, "state": {}, "tables": None}


@st.composite
def _seq_spec(draw):
    nd = draw(st.integers(0, 3))
    nf = draw(st.integers(1, 4))
    ng = draw(st.integers(1, 7))
    has_rst = draw(st.booleans())
    has_qn = draw(st.booleans())
    pins_in = ["clk", "d"] + (["rst"] if has_rst else [])
    pins_out = ["q"] + (["qn"] if has_qn else [])
    names = S.names_from(draw, (S.BENIGN,), nd + nf + ng)
    nodes = [["clk", "input", [], False]]
    if has_rst:
        nodes.append(["rst", "input", [], False])
    k = 0
    for _ in range(nd):
        nodes.append([names[k], "input", [], False])
        k += 1
    qbufs = []
    q_connected = []
    for f in range(nf):
        conn = draw(st.integers(0, 7)) != 0
        q_connected.append(conn)
        if conn:
            nodes.append([names[k], "buf", [], draw(st.integers(0, 3)) == 0])
            qbufs.append(names[k])
        else:
            qbufs.append(None)
        k += 1
    srcs = [x[0] for x in nodes if x[0] not in ("clk", "rst")] or ["clk"]
    for _ in range(ng):
        t = draw(st.sampled_from(S.ALL_GATES))
        cands = [x[0] for x in nodes if x[0] not in ("clk",)] or ["clk"]
        nfi = 1 if t in S.UNARY else min(draw(st.sampled_from([1, 2, 2, 3])), len(cands))
        fi = draw(st.lists(st.sampled_from(cands), min_size=nfi, max_size=nfi, unique=True))
        nodes.append([names[k], t, fi, draw(st.integers(0, 2)) == 0])
        k += 1
    loaded = set()
    for x in nodes:
        loaded.update(x[2])
    insts = []
    dnets = [x[0] for x in nodes if x[0] != "clk"] or ["clk"]
    # instance names in an order that is neither sorted nor the creation order of their nets
    # instance names live in their own namespace: they may equal the name of an io node
    ionames = [x[0] for x in nodes if x[1] == "input" or x[3]]
    fnames = draw(st.lists(st.sampled_from(["f0", "f1", "f2", "f10", "r2", "r10", "cnt1", "cnt0", "zreg", "areg"] + ionames[:4]),
                           min_size=nf, max_size=nf, unique=True))
    for f in range(nf):
        conns = {"clk": "clk", "d": draw(st.sampled_from(dnets))}
        if has_rst:
            conns["rst"] = draw(st.sampled_from(["rst", "rst"] + dnets))
        if q_connected[f]:
            conns["q"] = qbufs[f]
        insts.append([fnames[f], 0, conns])
        loaded.add(conns["d"])
    for x in nodes:
        if x[1] in S.ALL_GATES and x[0] not in loaded:
            x[3] = True
    return {"name": "sq", "nodes": nodes, "bbtypes": [["dff", pins_in, pins_out]], "insts": insts}


@st.composite
def _case(draw, ctx):
    tables = draw(st.lists(st.integers(0, (1 << 64) - 1), min_size=24, max_size=24))
    if draw(st.booleans()):
        spec = draw(S.circuit_spec(min_inputs=1, max_inputs=4, min_gates=1, max_gates=8, max_fanin=3,
                                   io_outputs=draw(st.booleans())))
        # one case in three also offers feed-through ports (inputs marked as outputs) to the pairing, on
        # either side or both: "every injective pairing of outputs to inputs" includes them
        ft = draw(st.integers(0, 2)) == 0
        ins = [x[0] for x in spec["nodes"] if x[1] == "input" and (ft or not x[3])]
        outs = [x[0] for x in spec["nodes"] if x[3] and (ft or x[1] != "input")]
        m = draw(st.integers(0, min(len(ins), len(outs))))
        ks = draw(st.lists(st.sampled_from(outs), min_size=m, max_size=m, unique=True)) if m else []
        vs = draw(st.lists(st.sampled_from(ins), min_size=m, max_size=m, unique=True)) if m else []
        return {"kind": "unroll", "spec": spec, "n": draw(st.integers(1, 6)), "state": dict(zip(ks, vs)), "tables": tables}
    spec = draw(_seq_spec())
    flops = [i[0] for i in spec["insts"]]
    iv = draw(st.sampled_from([None, "0", "1", "dict"]))
    if iv == "dict":
        sub = draw(st.lists(st.sampled_from(flops), min_size=1, max_size=len(flops), unique=True))
        iv = {f: draw(st.sampled_from(["0", "1"])) for f in sub}
    ign = draw(st.sampled_from([None, None, "clk", ["clk", "rst"], "qn", ["rst"]]))
    if draw(st.integers(0, 2)) == 0:
        spec["distinct_bb"] = True
    return {"kind": "seq", "spec": spec, "n": draw(st.integers(1, 4)), "afo": draw(st.booleans()), "init": iv,
            "ru": draw(st.booleans()), "ignore": ign, "d": "d", "q": "q", "tables": tables,
            "positional": draw(st.integers(0, 3)) == 0}


def strategy(ctx):
    return _case(ctx)


def _assign(free, tables):
    if len(free) <= 11 or tables is None:
        return refsim.std_assignment(free)
    return {n: tables[i % len(tables)] ^ (i // len(tables)) for i, n in enumerate(free)}, 64


class _Vals(dict):
    """Simulation result whose missing keys are a property violation (io_map names a node that does not exist)."""

    def __missing__(self, k):
        raise Violation("io_map|unknown_node", f"io_map refers to {k!r}, which is not a node of the unrolled circuit")


def _check_iomap(io_map, ios, n, what):
    if set(io_map) != set(ios):
        raise Violation(f"{what}|io_map_keys", f"io_map keys {sorted(io_map)} != io nodes {sorted(ios)}")
    for k, v in io_map.items():
        if len(v) != n:
            raise Violation(f"{what}|io_map_len", f"io_map[{k!r}] has {len(v)} entries for n={n}")


def check(case, ctx):
    spec = case["spec"]
    c = specs.build(spec)
    if refsim.ref_lint(c):
        raise specs.SpecError("generator produced non-lint-clean circuit")
    n = case["n"]
    snap = refsim.snapshot(c)
    if case["kind"] == "unroll":
        state = dict(case["state"])
        r = need(lib(cg.tx.unroll, c, n, dict(state)), "unroll", f"unroll(c,{n},{state})")
        uc, io_map = r
        if refsim.snapshot(c) != snap:
            raise Violation("unroll|mutates_argument", "argument modified")
        ins = sorted(c.inputs())
        outs = sorted(c.outputs())
        _check_iomap(io_map, set(ins) | set(outs), n, "unroll")
        bad = refsim.ref_lint(uc)
        if bad:
            raise Violation("unroll|lint", f"unrolled circuit not lint-clean: {bad[:3]}")
        sin = set(state.values())
        exp_free = {io_map[v][0] for v in sin} | {io_map[i][t] for i in ins if i not in sin for t in range(n)}
        free = refsim.free_nodes(uc)
        if set(free) != exp_free:
            raise Violation("unroll|free_signals", f"free signals {sorted(set(free) ^ exp_free)} differ from step-0 state inputs + per-step inputs")
        if set(uc.inputs()) != exp_free:
            raise Violation("unroll|inputs", "inputs() of the unrolled circuit differ from the free signals")
        asg, W = _assign(free, case["tables"])
        val = _Vals(refsim.simulate(uc, asg, W))
        prev = None
        dep = False
        for t in range(n):
            a = {}
            for i in ins:
                if i in sin and t > 0:
                    k = [kk for kk, vv in state.items() if vv == i][0]
                    a[i] = prev[k]
                else:
                    a[i] = asg[io_map[i][t]]
            cur = refsim.simulate(c, a, W)
            for o in outs:
                if val[io_map[o][t]] != cur[o]:
                    j = refsim.bits(val[io_map[o][t]] ^ cur[o])[0]
                    raise Violation("unroll|output_value", f"output {o!r} at step {t}: unrolled {(val[io_map[o][t]] >> j) & 1}, iterated execution {(cur[o] >> j) & 1} (n={n}, state_io={state})")
            for i in ins:
                if val[io_map[i][t]] != a[i]:
                    raise Violation("unroll|input_value", f"input copy {io_map[i][t]!r} at step {t} does not carry the fed-back / per-step value")
            prev = cur
        for o in outs:
            for t in range(n):
                if io_map[o][t] not in uc.graph.nodes or not uc.graph.nodes[io_map[o][t]].get("output"):
                    raise Violation("unroll|output_mark", f"{io_map[o][t]!r} is not marked as output")
        nontriv = n >= 2 and bool(state)
        return {"nontrivial": nontriv, "labels": ["unroll", f"state_{min(len(state), 3)}"]}

    # sequential
    d, q = case["d"], case["q"]
    kw = {"add_flop_outputs": case["afo"], "remove_unloaded": case["ru"]}
    if case["init"] is not None:
        kw["initial_values"] = dict(case["init"]) if isinstance(case["init"], dict) else case["init"]
    if case["ignore"] is not None:
        kw["ignore_pins"] = case["ignore"]
    ign = case["ignore"]
    ign_l = [] if ign is None else ([ign] if isinstance(ign, str) else list(ign))
    flops = sorted(c.blackboxes)
    g = c.graph
    q_unloaded = [f for f in flops if not g.succ[f"{f}.{q}"]]
    labels = ["seq"]
    if q_unloaded:
        labels.append("q_unconnected")
    if q in ign_l or d in ign_l:
        return {"nontrivial": False, "labels": ["skipped_ignore_dq"]}
    if case.get("positional"):
        # the documented parameter order
        out = lib(cg.tx.sequential_unroll, c, n, d, q, kw.get("ignore_pins"), kw["add_flop_outputs"], kw.get("initial_values"), kw["remove_unloaded"])
    else:
        out = lib(cg.tx.sequential_unroll, c, n, d, q, **kw)
    uc, io_map = need(out, "seq_unroll", f"sequential_unroll(n={n}, {kw})")
    if refsim.snapshot(c) != snap:
        raise Violation("seq_unroll|mutates_argument", "argument modified")
    bad = refsim.ref_lint(uc)
    if bad:
        raise Violation("seq_unroll|lint", f"result not lint-clean: {bad[:3]}")
    if uc.blackboxes:
        raise Violation("seq_unroll|blackboxes", "blackboxes left")
    ins = sorted(c.inputs())
    outs = sorted(c.outputs())
    bbt = spec["bbtypes"][0]
    for k in io_map:
        for f in flops:
            for p in bbt[1] + bbt[2]:
                if p not in (d, q) and k == f"{f}_{p}":
                    raise Violation("seq_unroll|extra_pin", f"io_map contains dropped pin {k!r}")
    for node in uc.graph.nodes:
        for f in flops:
            for p in bbt[1] + bbt[2]:
                if p not in (d, q) and (f"{f}_{p}_" in node or node.endswith(f"_{f}_{p}")):
                    raise Violation("seq_unroll|extra_pin_node", f"node {node!r} of a dropped pin remains")
    for k, v in io_map.items():
        if len(v) != n:
            raise Violation("seq_unroll|io_map_len", f"io_map[{k!r}] has {len(v)} entries for n={n}")
    for o in outs:
        if o not in io_map:
            raise Violation("seq_unroll|io_map_keys", f"output {o!r} missing from io_map")
    for f in flops:
        for p in (d, q):
            if f"{f}_{p}" not in io_map:
                raise Violation("seq_unroll|io_map_keys", f"{f}_{p} missing from io_map")
    # which inputs must survive
    for i in ins:
        only_pins = all(g.nodes[s]["type"] == "bb_input" and s.split(".")[-1] != d for s in g.succ[i])
        unloaded_after = (not g.succ[i]) or only_pins
        if case["ru"] and unloaded_after:
            if i in io_map:
                raise Violation("seq_unroll|unloaded_input_kept", f"unloaded input {i!r} kept although remove_unloaded=True")
        elif i not in io_map:
            raise Violation("seq_unroll|input_lost", f"input {i!r} missing from io_map (remove_unloaded={case['ru']})")
    init = case["init"]

    def init_of(f):
        if init is None:
            return None
        if isinstance(init, str):
            return init
        return init.get(f)

    exp_free = set()
    for i in ins:
        if i in io_map:
            exp_free |= set(io_map[i])
    for f in flops:
        if init_of(f) is None:
            exp_free.add(io_map[f"{f}_{q}"][0])
    free = refsim.free_nodes(uc)
    if set(free) != exp_free:
        raise Violation("seq_unroll|free_signals", f"free signals differ from per-step inputs + free initial state: {sorted(set(free) ^ exp_free)}")
    asg, W = _assign(free, case["tables"])
    full = (1 << W) - 1
    val = _Vals(refsim.simulate(uc, asg, W))
    state = {}
    for f in flops:
        iv = init_of(f)
        state[f] = asg[io_map[f"{f}_{q}"][0]] if iv is None else (full if iv == "1" else 0)
    for t in range(n):
        a = {}
        for i in ins:
            a[i] = asg[io_map[i][t]] if i in io_map else 0
        for f in flops:
            for p in bbt[2]:
                a[f"{f}.{p}"] = state[f] if p == q else 0
        cur = refsim.simulate(c, a, W)
        for o in outs:
            if val[io_map[o][t]] != cur[o]:
                j = refsim.bits(val[io_map[o][t]] ^ cur[o])[0]
                raise Violation("seq_unroll|output_value", f"output {o!r} at cycle {t}: unrolled {(val[io_map[o][t]] >> j) & 1}, cycle-accurate {(cur[o] >> j) & 1} (n={n}, {kw})")
        for f in flops:
            if val[io_map[f"{f}_{q}"][t]] != state[f]:
                raise Violation("seq_unroll|q_value", f"Q of {f} at cycle {t} differs from cycle-accurate state (init={init})")
            if val[io_map[f"{f}_{d}"][t]] != cur[f"{f}.{d}"]:
                raise Violation("seq_unroll|d_value", f"D of {f} at cycle {t} differs from cycle-accurate value")
            isout = bool(uc.graph.nodes.get(io_map[f"{f}_{d}"][t], {}).get("output"))
            if isout != bool(case["afo"]):
                raise Violation("seq_unroll|flop_output_mark", f"D copy of {f} at cycle {t}: output={isout}, add_flop_outputs={case['afo']}")
        state = {f: cur[f"{f}.{d}"] for f in flops}
    exp_outs = {io_map[o][t] for o in outs for t in range(n)}
    if case["afo"]:
        exp_outs |= {io_map[f"{f}_{d}"][t] for f in flops for t in range(n)}
    if set(uc.outputs()) != exp_outs:
        raise Violation("seq_unroll|outputs", f"outputs() differ: {sorted(set(uc.outputs()) ^ exp_outs)[:5]}")
    if case["ru"]:
        qcopies = {x for f in flops for x in io_map[f"{f}_{q}"]}
        for i in uc.inputs():
            if i in qcopies:
                continue  # flop state, not an unused input
            if not uc.graph.succ[i] and not uc.graph.nodes[i].get("output"):
                raise Violation("seq_unroll|unloaded_input", f"unloaded input {i!r} remains although remove_unloaded=True")
    labels += [f"init_{'dict' if isinstance(init, dict) else init}", f"afo_{case['afo']}", f"ru_{case['ru']}"]
    if ign_l:
        labels.append("ignore_pins")
    return {"nontrivial": n >= 2, "labels": labels}
