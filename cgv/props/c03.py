"""C03 -- Verilog write -> read round trip preserves the circuit."""
import os
import shutil

from hypothesis import strategies as st

import circuitgraph as cg
from cgv import refsim, specs
from cgv import strategies as S
from cgv.harness import Violation, lib, need

ID = "C03"
RULE = (
    "cases: lint-clean circuit specs with any gate mix (fan-in 1..5), constants 0/1 (and 'x' for the "
    "structural part), outputs that are inputs or constants, 0..2 blackbox instances with connected and "
    "unconnected input/output pins, node names plain, escaped (backslash + printable non-space "
    "characters) or looking like the gate names the reader synthesises for assign expressions, >= 1 port; behavioral in {False, True}; route = in-memory string, or "
    "to_file/from_file in a temporary directory (suffix and fmt dispatch, inferred module name; unknown "
    "suffix / fmt must raise ValueError). Oracle: c2 = read(write(c)): same name, input set, output set, "
    "same instances with the same BlackBox; every pin has the same driver / driven net or is unconnected "
    "in both; equal truth table at every output and blackbox input pin over all valuations of inputs and "
    "blackbox outputs (reference simulation of both circuits, <= 10 free, else 64 drawn); when c has no "
    "constant node and behavioral=False the graphs are identical (nodes, types, edges, output marks). "
    "Non-trivial: >= 3 gates of >= 2 types and at least one of: constant, blackbox, escaped name, output "
    "that is an input, 1-input n-ary gate, n-ary gate with fan-in >= 3. Distinct by digest."
)
RULE += " Added after seeded-change rounds 4-5: nets whose names start with tie_, cells called BUF / Nand / AND ..., fmt='verilog' with any file suffix (.bench, .sv, none), escaped identifiers containing /* */ //."
ASSUMPTIONS = [
    "reference simulator cgv.refsim",
    "names tie_0/tie_1/tie_x are excluded by the property itself (reader's reserved constant names)",
    "type 'x' is compared structurally only (it has no Boolean value)",
]
EXHAUSTIVE_NOTE = "core: each gate type x fan-in 1..4 x both styles as single-gate circuits; each constant as output; one 3-pin blackbox under every connected/unconnected pattern (2^3) x both styles"
EXAMPLES = {"quick": 350, "thorough": 8000}

LONG = ["u0_core_alu_adder_stage3_carry_lookahead_unit_generate_propagate_bit_17_net_4821_q",
        "top_cpu0_decode_pipeline_register_bank_1_write_enable_gated_clock_domain_b_n74_x",
        "p" * 76, "q" * 77, "r" * 101, "\\long-escaped-" + "z" * 70]
VNAMES = [n for n in S.BENIGN if n not in ("buf", "and", "or", "xor", "not", "nand", "nor", "xnor", "input", "output", "wire", "assign", "module", "endmodule")]
VNAMES += ["tie_hi", "tie_lo", "tie_sel", "tie_00", "tie_"]  # close to the reader's reserved tie_0/tie_1/tie_x, but ordinary
HELPERLIKE = []
for _op in ("and", "or", "xor"):
    for _x in "abc":
        for _y in "abc":
            if _x != _y:
                HELPERLIKE += [f"{_op}_{_x}_{_y}", f"{_op}_{_x}_{_y}_0"]
HELPERLIKE += ["not_a", "not_b", "not_a_0", "and_and_a_b_c", "xor_xor_a_b_c", "or_or_a_b_c", "and_c_and_a_b", "not_and_a_b",
               "mux_o_a_b_c", "not_xor_a_b", "not_or_a_b", "and_a_b_c", "g_0", "g_1", "tie_hi", "tie_a"]
ESC = S.ESCAPED + ["\\a/*0*/x", "\\n//c", "\\/*", "\\*/k", "\\c//", "\\g_0", "\\and", "\\1'b0", "\\a&b", "\\~n", "\\assign"]


def core(ctx):
    for t in S.NARY:
        for k in range(1, 5):
            nodes = [[f"i{j}", "input", [], False] for j in range(k)]
            nodes.append(["g", t, [f"i{j}" for j in range(k)], True])
            for beh in (False, True):
                yield {"spec": {"name": "c", "nodes": nodes, "bbtypes": [], "insts": []}, "beh": beh, "route": "string"}
    for t in S.UNARY:
        for beh in (False, True):
            yield {"spec": {"name": "c", "nodes": [["a", "input", [], False], ["g", t, ["a"], True]], "bbtypes": [], "insts": []},
                   "beh": beh, "route": "file_suffix"}
    for ct in ("0", "1", "x"):
        for beh in (False, True):
            nodes = [["a", "input", [], True], ["k", ct, [], True], ["g", "or", ["a", "k"], True]]
            yield {"spec": {"name": "c", "nodes": nodes, "bbtypes": [], "insts": []}, "beh": beh, "route": "string"}
    for mask in range(8):
        conns = {}
        nodes = [["a", "input", [], False], ["b", "input", [], False], ["o", "buf", [] if mask & 4 else ["a"], True],
                 ["g", "and", ["a", "b"], True]]
        if mask & 1:
            conns["d"] = "g"
        if mask & 2:
            conns["clk"] = "b"
        if mask & 4:
            conns["q"] = "o"
        for beh in (False, True):
            yield {"spec": {"name": "top", "nodes": nodes, "bbtypes": [["ff", ["d", "clk"], ["q"]]], "insts": [["u0", 0, conns]]},
                   "beh": beh, "route": "string"}
    # very wide gates (assign style nests one operator per operand)
    for width in (40, 700):
        for t in ("and", "xnor"):
            nodes = [[f"i{j}", "input", [], False] for j in range(width)]
            nodes.append(["g", t, [f"i{j}" for j in range(width)], True])
            for beh in (False, True):
                yield {"spec": {"name": "wide", "nodes": nodes, "bbtypes": [], "insts": []}, "beh": beh, "route": "string",
                       "tables": [(0x9E3779B97F4A7C15 * (i + 1)) & ((1 << 64) - 1) for i in range(16)]}
    yield {"spec": {"name": "c", "nodes": [["a", "input", [], False], ["g", "not", ["a"], True]], "bbtypes": [], "insts": []},
           "beh": False, "route": "bad_suffix"}
    yield {"spec": {"name": "c", "nodes": [["a", "input", [], False], ["g", "not", ["a"], True]], "bbtypes": [], "insts": []},
           "beh": False, "route": "bad_fmt"}


@st.composite
def _case(draw, ctx):
    esc = draw(st.integers(0, 2)) == 0
    pools = (VNAMES, ESC) if esc else (VNAMES,)
    if draw(st.integers(0, 5)) == 0:
        pools = (VNAMES[:20], LONG)
    dense = False
    prior = None
    k_ = draw(st.integers(0, 7))
    if k_ in (0, 1):
        # nets named like the gates the reader synthesises for assign expressions
        pools = (["a", "b", "c"], HELPERLIKE)
        dense = True
    elif k_ == 2:
        # the same names in ordinary circuits (all gate types, constants), read after another circuit over
        # a, b, c has been written in assign style and read back in the same process
        pools = (["a", "b", "c", "d"], ["not_a", "not_b", "and_a_b", "and_b_a", "or_a_b", "or_b_c", "xor_a_b", "xor_b_a", "and_a_c", "not_c",
                                        "and_a_b_0", "not_a_0", "or_a_c", "xor_a_c", "and_b_c"])
        prior = draw(S.circuit_spec(min_inputs=3, max_inputs=3, min_gates=3, max_gates=8, max_fanin=3, pools=(["a", "b", "c"], [f"w{i}" for i in range(12)]),
                                    types=["and", "nand", "or", "nor", "xor", "xnor", "not"], min_fanin_nary=2, consts=False, name="earlier"))
    spec = draw(S.circuit_spec(min_inputs=3 if dense else 0, max_inputs=3 if dense else 4, min_gates=4 if dense else 1,
                               max_gates=12 if dense else 9, max_fanin=5, pools=pools,
                               types=(["and", "nand", "or", "nor", "xor", "xnor"] if dense else (list(S.ALL_GATES) + ["buf", "buf", "buf"] if prior else S.ALL_GATES)),
                               min_fanin_nary=2 if dense else 1, consts=not dense, shuffle=not dense,
                               const_types=("0", "1", "0", "1", "x") if draw(st.integers(0, 5)) == 0 else ("0", "1"),
                               max_insts=draw(st.sampled_from([0, 0, 1, 2])), unconnected_pins=draw(st.booleans()),
                               io_outputs=True, name=draw(st.sampled_from(["c", "top", "my_circuit", "C17"])),
                               # Verilog is case sensitive: cells called BUF or Nand are not the primitives
                               bb_type_names=draw(st.sampled_from([None, None, ["DFF", "BUF", "Nand", "AND", "INVX1", "dff_r", "Xor", "NOT", "mux2", "Or"]]))))
    if dense:
        # aim: a net named like the gate the reader will synthesise for the first two operands of a
        # >= 3-input gate, and another one named like that name's first uniquified form
        fam = {"and": "and", "nand": "and", "or": "or", "nor": "or", "xor": "xor", "xnor": "xor"}
        big = [x for x in spec["nodes"] if x[1] in fam and len(x[2]) >= 3]
        others = [x for x in spec["nodes"] if x[1] in fam]
        if big and len(others) >= 3:
            gte = draw(st.sampled_from(big))
            xy = draw(st.permutations(gte[2]))[:2]
            base = f"{fam[gte[1]]}_{xy[0]}_{xy[1]}"
            victims = [x for x in others if x is not gte and x[0] not in gte[2]]
            taken = {x[0] for x in spec["nodes"]}
            ren = {}
            for v, newname in zip(victims[:2], [base, base + "_0"]):
                if newname not in taken:
                    ren[v[0]] = newname
            for x in spec["nodes"]:
                x[0] = ren.get(x[0], x[0])
                x[2] = [ren.get(f, f) for f in x[2]]
            for inst in spec["insts"]:
                inst[2] = {k: ren.get(v, v) for k, v in inst[2].items()}
    if prior is None and not dense and draw(st.integers(0, 9)) == 0:
        # combinational feedback (rings and gates reading their own output) over and / or / xor / not / buf with
        # at most two operands: both output styles must give back the identical graph
        spec = draw(S.circuit_spec(min_inputs=1, max_inputs=3, min_gates=2, max_gates=7, max_fanin=2, cyclic=True, selfloops=True,
                                   types=["and", "or", "xor", "not", "buf", "and", "or", "xor"], min_fanin_nary=2, consts=False,
                                   io_outputs=True, name="fb"))
    route = draw(st.sampled_from(["string", "string", "string", "file_suffix", "file_fmt", "file_infer", "bad_suffix", "bad_fmt"]))
    tables = draw(st.lists(st.integers(0, (1 << 64) - 1), min_size=16, max_size=16))
    case = {"spec": spec, "beh": draw(st.booleans()), "route": route, "tables": tables,
            "suffix": draw(st.sampled_from([".txt", ".bench", ".sv", "", ".vh", ".BENCH"]))}
    if prior is not None:
        case["prior"] = prior
    return case


def strategy(ctx):
    return _case(ctx)


def _pin_nets(c):
    out = {}
    for inst, bb in c.blackboxes.items():
        for p in bb.inputs():
            pn = f"{inst}.{p}"
            out[pn] = ("in", sorted(c.graph.pred[pn]) if pn in c.graph else "MISSING")
        for p in bb.outputs():
            pn = f"{inst}.{p}"
            out[pn] = ("out", sorted(c.graph.succ[pn]) if pn in c.graph else "MISSING")
    return out


def check(case, ctx):
    spec = case["spec"]
    c, bbs = specs.build(spec, with_bbs=True)
    if [v for v in refsim.ref_lint(c, undriven=False) if v[0] != "dotted_no_instance"]:
        raise specs.SpecError("generator produced non-lint-clean circuit")
    g = c.graph
    if not (c.inputs() or c.outputs()):
        return {"nontrivial": False, "labels": ["skipped_no_port"]}
    beh = case["beh"]
    route = case["route"]
    if case.get("prior"):
        # another circuit written in assign style and read back earlier in the same process
        pc_ = specs.build(case["prior"])
        pt_ = lib(cg.io.circuit_to_verilog, pc_, behavioral=True)
        if pt_.ok:
            lib(cg.io.verilog_to_circuit, pt_.value, pc_.name)
    snap = refsim.snapshot(c)
    tdir = os.path.join(ctx.tmp if ctx is not None else "/tmp", "c03")
    shutil.rmtree(tdir, ignore_errors=True)
    os.makedirs(tdir)
    try:
        if route == "string":
            txt = need(lib(cg.io.circuit_to_verilog, c, behavioral=beh), "write", f"circuit_to_verilog(behavioral={beh})")
            out = lib(cg.io.verilog_to_circuit, txt, c.name, blackboxes=bbs)
            c2 = need(out, "read", f"verilog_to_circuit of the writer's own output:\n{txt}\n")
        elif route in ("bad_suffix", "bad_fmt"):
            if route == "bad_suffix":
                path = os.path.join(tdir, f"{c.name}.vhd")
                need(lib(cg.to_file, c, path), "to_file", "to_file")
                r = lib(cg.from_file, path, blackboxes=bbs)
            else:
                r = lib(cg.to_file, c, os.path.join(tdir, f"{c.name}.v"), fmt="edif")
            if r.ok or r.type != "ValueError":
                raise Violation(f"file|{route}", f"{route}: expected ValueError, got {r.value if r.ok else r.text}")
            return {"nontrivial": False, "labels": [route]}
        else:
            if route == "file_suffix":
                path = os.path.join(tdir, f"{c.name}.v")
                need(lib(cg.to_file, c, path, behavioral=beh), "to_file", "to_file(.v)")
                c2 = need(lib(cg.from_file, path, blackboxes=bbs), "from_file", "from_file(.v)")
            elif route == "file_fmt":
                # fmt overrides the extension, whatever the extension is
                path = os.path.join(tdir, f"{c.name}{case.get('suffix', '.txt')}")
                need(lib(cg.to_file, c, path, fmt="verilog", behavioral=beh), "to_file", "to_file(fmt=verilog)")
                c2 = need(lib(cg.from_file, path, fmt="verilog", blackboxes=bbs), "from_file", "from_file(fmt=verilog)")
            else:
                path = os.path.join(tdir, "some_other_name.v")
                need(lib(cg.to_file, c, path, behavioral=beh), "to_file", "to_file")
                c2 = need(lib(cg.from_file, path, blackboxes=bbs), "from_file", "from_file(inferred module name)")
            with open(path) as f:
                txt = f.read()
    finally:
        shutil.rmtree(tdir, ignore_errors=True)
    if refsim.snapshot(c) != snap:
        raise Violation("write|mutates_argument", "the writer modified its argument")
    g2 = c2.graph
    tail = f"\n--- text ---\n{txt}"
    if c2.name != c.name:
        raise Violation("rt|name", f"name {c2.name!r} != {c.name!r}{tail}")
    if set(c2.inputs()) != set(c.inputs()):
        raise Violation("rt|inputs", f"inputs {sorted(c2.inputs())} != {sorted(c.inputs())}{tail}")
    if set(c2.outputs()) != set(c.outputs()):
        raise Violation("rt|outputs", f"outputs {sorted(c2.outputs())} != {sorted(c.outputs())}{tail}")
    if set(c2.blackboxes) != set(c.blackboxes) or any(c2.blackboxes[k] is not c.blackboxes[k] for k in c.blackboxes):
        raise Violation("rt|instances", f"instances {sorted(c2.blackboxes)} != {sorted(c.blackboxes)}{tail}")
    p1, p2 = _pin_nets(c), _pin_nets(c2)
    has_const = any(g.nodes[n]["type"] in ("0", "1", "x") for n in g.nodes)
    for pn, (d, nets) in p1.items():
        d2, nets2 = p2.get(pn, (d, "MISSING"))
        if nets2 == "MISSING":
            raise Violation("rt|pin_missing", f"pin {pn} missing after the round trip{tail}")
        if bool(nets) != bool(nets2):
            raise Violation("rt|pin_connection", f"pin {pn}: {nets} before, {nets2} after{tail}")
        if nets != nets2:
            # a pin driven by a constant node may be re-driven by the reader's own constant
            if not (d == "in" and nets and g.nodes[nets[0]]["type"] in ("0", "1", "x")):
                raise Violation("rt|pin_net", f"pin {pn}: attached to {nets} before, {nets2} after{tail}")
    bad = refsim.ref_lint(c2, undriven=False)
    bad = [b for b in bad if b[0] != "dotted_no_instance"]
    if bad:
        raise Violation("rt|lint", f"round-tripped circuit violates wiring rules {bad[:3]}{tail}")
    has_x = any(g.nodes[n]["type"] == "x" for n in g.nodes)
    cyc = refsim.has_cycle(c)
    simple = cyc and not has_const and not c.blackboxes and all(
        g.nodes[n]["type"] in ("input", "buf", "not") or (g.nodes[n]["type"] in ("and", "or", "xor") and len(g.pred[n]) == 2) for n in g.nodes)
    if not has_x and not cyc:
        free = sorted(refsim.free_nodes(c))
        free2 = sorted(refsim.free_nodes(c2))
        if free != free2:
            raise Violation("rt|free_signals", f"free signals {free2} != {free}{tail}")
        if len(free) <= 10 or not case.get("tables"):
            asg, W = refsim.std_assignment(free)
        else:
            W = 64
            tb = case["tables"]
            asg = {n: tb[i % len(tb)] ^ (i // len(tb)) for i, n in enumerate(free)}
        v1 = refsim.simulate(c, asg, W)
        v2 = refsim.simulate(c2, asg, W)
        watch = sorted(c.outputs()) + sorted(n for n in g.nodes if g.nodes[n]["type"] == "bb_input")
        for n in watch:
            if v1[n] != v2[n]:
                j = refsim.bits(v1[n] ^ v2[n])[0]
                vv = {f: (asg[f] >> j) & 1 for f in free}
                raise Violation("rt|function", f"{n!r} = {(v2[n] >> j) & 1} after the round trip, {(v1[n] >> j) & 1} before, under {vv} (behavioral={beh}){tail}")
    if (not has_const and not beh) or simple:
        if set(g2.nodes) != set(g.nodes):
            raise Violation("rt|identity_nodes", f"node sets differ: {sorted(set(g.nodes) ^ set(g2.nodes))}{tail}")
        for n in g.nodes:
            if g2.nodes[n].get("type") != g.nodes[n]["type"]:
                raise Violation("rt|identity_type", f"{n!r}: type {g2.nodes[n].get('type')!r} != {g.nodes[n]['type']!r}{tail}")
            if bool(g2.nodes[n].get("output")) != bool(g.nodes[n].get("output")):
                raise Violation("rt|identity_output", f"{n!r}: output mark differs{tail}")
        if set(g2.edges) != set(g.edges):
            raise Violation("rt|identity_edges", f"edge sets differ: {sorted(set(g.edges) ^ set(g2.edges))[:6]}{tail}")
    stt = specs.spec_stats(spec)
    labels = [route, "behavioral" if beh else "structural"]
    esc = any(x[0].startswith("\\") for x in spec["nodes"])
    if any(x[0] in HELPERLIKE for x in spec["nodes"]):
        labels.append("helper_like_names")
    io_out = any(x[1] == "input" and x[3] for x in spec["nodes"])
    feats = [stt["has_const"] or has_x, stt["has_bb"], esc, io_out, stt["one_input_nary"], stt["max_fanin"] >= 3]
    for nm, f in zip(["const", "blackbox", "escaped", "input_is_output", "one_input_nary", "fanin>=3"], feats):
        if f:
            labels.append(nm)
    if (not has_const and not beh) or simple:
        labels.append("identity_checked")
    if cyc:
        labels.append("feedback")
    if any(p[1] == [] for p in p1.values()):
        labels.append("unconnected_pin")
    nontriv = stt["n_gates"] >= 3 and len(stt["gate_types"]) >= 2 and any(feats)
    return {"nontrivial": bool(nontriv), "labels": labels}
