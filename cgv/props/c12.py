"""C12 -- graph queries agree with their graph-theoretic definitions."""
import itertools

from hypothesis import strategies as st

import circuitgraph as cg
from cgv import refsim, specs
from cgv import strategies as S
from cgv.harness import Violation, lib, need

ID = "C12"
RULE = (
    "cases: directed graphs realised as circuits -- every DAG on <= 5 labelled nodes (core, exhaustive), "
    "random DAGs up to 12 nodes of any density, shape families (chain, in/out-tree, diamond, nested "
    "diamond, branch that is the meeting point, wide fan-out, several components), circuits with "
    "blackbox pins as sources/sinks, cyclic graphs (for is_cyclic and the rejections); arguments are "
    "single nodes and drawn node lists. Oracle: own BFS / DP on c.graph -- predecessors/successors, "
    "union of proper ancestors/descendants, startpoints/endpoints by type and reachability, longest "
    "path (fanin_depth/fanout_depth/levelize), Kahn validity of topo_sort, DFS cycle detection, "
    "reconvergence by definition ({a} u desc(a)) n ({b} u desc(b)) != {} for two fan-out branches, "
    "validity of every kcut (size <= k, separates n from all sources). Non-trivial: graph has a node "
    "with fan-out >= 2 and a node with fan-in >= 2. Distinct by digest."
)
RULE += ' Added after seeded-change rounds 4-5: cyclic circuits must be rejected by the depth functions for maximum=True and maximum=False alike.'
ASSUMPTIONS = [
    "levelize only on circuits whose sources are inputs/constants (it defines level 0 only for those)",
    "kcuts bounded to <= 9 nodes with fan-in <= 3 (enumeration cost), validity only (no completeness claim)",
    "on cyclic graphs a node is not counted as its own proper ancestor/descendant (per-node definition, united over the argument list)",
]
EXHAUSTIVE_NOTE = "core: all 1024+64+8+2+1 DAGs on 5,4,3,2,1 labelled nodes in topological order, every query on every node and on all node pairs"
EXAMPLES = {"quick": 1500, "thorough": 30000}


def _spec_from_graph(n, edges, typesel, outsel):
    """Nodes v0..v{n-1}; sources become inputs (or constants), others gates."""
    pred = {i: [] for i in range(n)}
    for u, v in edges:
        pred[v].append(u)
    nodes = []
    succ = {i: 0 for i in range(n)}
    for u, v in edges:
        succ[u] += 1
    for i in range(n):
        ps = pred[i]
        sel = typesel[i % len(typesel)]
        if not ps:
            t = ["input", "input", "input", "0", "1"][sel % 5]
        elif len(ps) == 1:
            t = (["buf", "not"] + S.NARY)[sel % 8]
        else:
            t = S.NARY[sel % 6]
        out = succ[i] == 0 or outsel[i % len(outsel)]
        nodes.append([f"v{i}", t, [f"v{p}" for p in ps], bool(out)])
    return {"name": "c", "nodes": nodes, "bbtypes": [], "insts": []}


def core(ctx):
    for n in range(1, 6):
        pairs = [(i, j) for i in range(n) for j in range(i + 1, n)]
        for mask in range(1 << len(pairs)):
            edges = [pairs[b] for b in range(len(pairs)) if (mask >> b) & 1]
            yield {"spec": _spec_from_graph(n, edges, [mask % 7, 1, 2, 3, 5], [False]), "args": "all", "k": 1 + mask % 4}
    # rings that no startpoint reaches (free-running / constant-driven loops)
    for ring in (["not", "not", "not"], ["not", "buf"], ["buf", "buf", "buf", "not"]):
        nodes = [[f"r{i}", t, [f"r{(i - 1) % len(ring)}"], i == 0] for i, t in enumerate(ring)]
        yield {"spec": {"name": "c", "nodes": nodes, "bbtypes": [], "insts": []}, "args": "all", "k": 2}
        nodes2 = [["k", "1", [], False], ["a", "input", [], True]] + [[f"r{i}", "and" if i == 0 else t, [f"r{(i - 1) % len(ring)}"] + (["k"] if i == 0 else []), i == 1] for i, t in enumerate(ring)]
        yield {"spec": {"name": "c", "nodes": nodes2, "bbtypes": [], "insts": []}, "args": "all", "k": 2}
    # cyclic rejections
    for ring in (2, 3):
        nodes = [["a", "input", [], False]] + [[f"r{i}", "and", [f"r{(i - 1) % ring}", "a"], i == 0] for i in range(ring)]
        yield {"spec": {"name": "c", "nodes": nodes, "bbtypes": [], "insts": []}, "args": "all", "k": 2}


@st.composite
def _case(draw, ctx):
    mode = draw(st.sampled_from(["dag", "dag", "dag", "shape", "spec_bb", "cyclic"]))
    if mode == "dag":
        n = draw(st.integers(2, 12))
        dens = draw(st.sampled_from([1, 2, 3, 5, 8]))
        edges = []
        for j in range(1, n):
            for i in range(j):
                if draw(st.integers(0, 9)) < dens and len([e for e in edges if e[1] == j]) < 5:
                    edges.append((i, j))
        perm = draw(st.permutations(list(range(n))))
        # relabel so that node names are not in topological order
        edges = [(perm[u], perm[v]) for u, v in edges]
        spec = _spec_from_graph(n, edges, draw(st.lists(st.integers(0, 40), min_size=3, max_size=6)),
                                draw(st.lists(st.booleans(), min_size=2, max_size=5)))
    elif mode == "shape":
        shape = draw(st.sampled_from(["chain", "outtree", "intree", "diamond", "nested", "meeting", "wide", "components"]))
        if shape == "chain":
            n = draw(st.integers(2, 10))
            edges = [(i, i + 1) for i in range(n - 1)]
        elif shape == "outtree":
            n = draw(st.integers(3, 11))
            edges = [((i - 1) // 2, i) for i in range(1, n)]
        elif shape == "intree":
            n = draw(st.integers(3, 11))
            edges = [(i, (i - 1) // 2) for i in range(1, n)]
        elif shape == "diamond":
            n, edges = 4, [(0, 1), (0, 2), (1, 3), (2, 3)]
        elif shape == "nested":
            n, edges = 8, [(0, 1), (0, 2), (1, 3), (1, 4), (3, 5), (4, 5), (5, 6), (2, 6), (6, 7)]
        elif shape == "meeting":
            n = draw(st.integers(3, 6))
            # 0 -> 1 -> ... -> n-1 and 0 -> n-1 : the second branch IS the meeting point
            edges = [(i, i + 1) for i in range(n - 1)] + [(0, n - 1)]
            if draw(st.booleans()):
                edges.append((n - 1, n))
                n += 1
        elif shape == "wide":
            n = draw(st.integers(4, 9))
            edges = [(0, i) for i in range(1, n)]
            if draw(st.booleans()):
                edges += [(n - 2, n - 1)]
        else:
            n, edges = 9, [(0, 1), (1, 2), (3, 4), (3, 5), (4, 6), (5, 6), (7, 8)]
        spec = _spec_from_graph(n, edges, draw(st.lists(st.integers(0, 40), min_size=3, max_size=6)),
                                draw(st.lists(st.booleans(), min_size=2, max_size=5)))
    elif mode == "spec_bb":
        spec = draw(S.circuit_spec(min_inputs=0, max_inputs=3, min_gates=1, max_gates=7, max_fanin=3, max_insts=2,
                                   unconnected_pins=draw(st.booleans())))
    else:
        spec = draw(S.circuit_spec(min_inputs=0, max_inputs=2, min_gates=2, max_gates=7, max_fanin=3, cyclic=True,
                                   selfloops=draw(st.booleans())))
    names = [x[0] for x in spec["nodes"]]
    for iname, ti, conns in spec["insts"]:
        for p in spec["bbtypes"][ti][1] + spec["bbtypes"][ti][2]:
            names.append(f"{iname}.{p}")
    args = draw(st.lists(st.lists(st.sampled_from(names), min_size=1, max_size=4, unique=True), min_size=1, max_size=5))
    return {"spec": spec, "args": args, "k": draw(st.integers(1, 4))}


def strategy(ctx):
    return _case(ctx)


def _longest(c, start, forward):
    """Longest path length (edges) from any node of `start` following succ (forward) or pred."""
    memo = {}
    nb = c.graph.succ if forward else c.graph.pred

    def lp(n):
        if n in memo:
            return memo[n]
        best = 0
        for m in nb[n]:
            best = max(best, 1 + lp(m))
        memo[n] = best
        return best

    return max(lp(n) for n in start)


def check(case, ctx):
    """Queries on the circuit as built, then -- on the same Circuit object -- after edits made through
    the public API (a blackbox pin removed or renamed; a rewiring that keeps node and edge counts but
    may create or destroy a cycle): answers must describe the graph as it is now."""
    spec = case["spec"]
    c = specs.build(spec)
    res = _queries(c, case, ctx)
    labels = list(res["labels"])
    pk = case.get("k", 1) * 7 + len(spec["nodes"])
    edited = False
    pins = sorted(n for n in c.graph.nodes if c.graph.nodes[n]["type"] in ("bb_input", "bb_output"))
    if pins and pk % 3 == 0:
        pin = pins[pk % len(pins)]
        if pk % 2:
            c.remove(pin)
        else:
            c.relabel({pin: "zz_renamed_pin"})
        edited = True
        labels.append("pin_edited")
    else:
        es = sorted(c.graph.edges)
        ns = sorted(c.graph.nodes)
        if es and len(ns) >= 2:
            u, v = es[pk % len(es)]
            x, y = ns[pk % len(ns)], ns[(pk * 5 + 1) % len(ns)]
            if x != y and not c.graph.has_edge(x, y) and (x, y) != (u, v):
                c.disconnect(u, v)
                r = lib(c.connect, x, y)
                if r.ok:
                    edited = True
                    labels.append("rewired_same_counts")
                else:
                    c.connect(u, v)
    if edited:
        case2 = dict(case)
        if case.get("args") != "all":
            keep = set(c.graph.nodes)
            case2["args"] = [[a for a in lst if a in keep] for lst in case["args"]]
            case2["args"] = [lst for lst in case2["args"] if lst] or [[sorted(keep)[0]]]
        res2 = _queries(c, case2, ctx)
        labels += [lb + "_after_edit" for lb in res2["labels"] if lb in ("cyclic", "acyclic")]
    return {"nontrivial": res["nontrivial"], "labels": labels}


def _queries(c, case, ctx):
    spec = case["spec"]
    g = c.graph
    nodes = sorted(g.nodes)
    cyc = refsim.has_cycle(c)
    labels = ["cyclic" if cyc else "acyclic"]
    if spec["insts"]:
        labels.append("has_blackbox")
    if case["args"] == "all":
        arglists = [[n] for n in nodes] + [list(p) for p in itertools.combinations(nodes, 2)]
        if len(nodes) >= 3:
            arglists.append(nodes)
    else:
        arglists = [list(a) for a in case["args"]]
    snap = refsim.snapshot(c)

    # is_cyclic
    r = need(lib(c.is_cyclic), "is_cyclic", "is_cyclic()")
    if bool(r) != cyc:
        raise Violation("is_cyclic|value", f"is_cyclic() = {r}, reference {cyc}")

    inputs = {n for n in nodes if g.nodes[n]["type"] == "input"}
    bbo = {n for n in nodes if g.nodes[n]["type"] == "bb_output"}
    bbi = {n for n in nodes if g.nodes[n]["type"] == "bb_input"}
    outs = {n for n in nodes if g.nodes[n].get("output")}
    if need(lib(c.startpoints), "startpoints", "startpoints()") != inputs | bbo:
        raise Violation("startpoints|all", "startpoints() != inputs | bb_outputs")
    if need(lib(c.endpoints), "endpoints", "endpoints()") != outs | bbi:
        raise Violation("endpoints|all", "endpoints() != outputs | bb_inputs")

    for ns in arglists:
        variants = [ns] if len(ns) > 1 else [ns[0], ns]
        for arg in variants:
            desc = f"{arg!r}"
            exp_fi = set()
            exp_fo = set()
            for n in ns:
                exp_fi |= set(g.pred[n])
                exp_fo |= set(g.succ[n])
            got = need(lib(c.fanin, arg), "fanin", f"fanin({desc})")
            if got != exp_fi:
                raise Violation("fanin|value", f"fanin({desc}) = {sorted(got)}, predecessors {sorted(exp_fi)}")
            got = need(lib(c.fanout, arg), "fanout", f"fanout({desc})")
            if got != exp_fo:
                raise Violation("fanout|value", f"fanout({desc}) = {sorted(got)}, successors {sorted(exp_fo)}")
            if cyc:
                # per-node proper ancestors / descendants (a node is not its own ancestor), united over the list
                anc = set()
                des = set()
                for n in ns:
                    anc |= refsim.ancestors(c, [n]) - {n}
                    des |= refsim.descendants(c, [n]) - {n}
                got = need(lib(c.transitive_fanin, arg), "tfi", f"transitive_fanin({desc})")
                if got != anc:
                    raise Violation("transitive_fanin|value_cyclic", f"transitive_fanin({desc}) = {sorted(got)}, proper ancestors {sorted(anc)}")
                got = need(lib(c.transitive_fanout, arg), "tfo", f"transitive_fanout({desc})")
                if got != des:
                    raise Violation("transitive_fanout|value_cyclic", f"transitive_fanout({desc}) = {sorted(got)}, proper descendants {sorted(des)}")
            if not cyc:
                anc = set()
                des = set()
                for n in ns:
                    anc |= refsim.ancestors(c, [n])
                    des |= refsim.descendants(c, [n])
                got = need(lib(c.transitive_fanin, arg), "tfi", f"transitive_fanin({desc})")
                if got != anc:
                    raise Violation("transitive_fanin|value", f"transitive_fanin({desc}) = {sorted(got)}, ancestors {sorted(anc)}")
                got = need(lib(c.transitive_fanout, arg), "tfo", f"transitive_fanout({desc})")
                if got != des:
                    raise Violation("transitive_fanout|value", f"transitive_fanout({desc}) = {sorted(got)}, descendants {sorted(des)}")
                got = need(lib(c.startpoints, arg), "startpoints", f"startpoints({desc})")
                exp = (set(ns) | anc) & (inputs | bbo)
                if got != exp:
                    raise Violation("startpoints|value", f"startpoints({desc}) = {sorted(got)}, expected {sorted(exp)}")
                got = need(lib(c.endpoints, arg), "endpoints", f"endpoints({desc})")
                exp = (set(ns) | des) & (outs | bbi)
                if got != exp:
                    raise Violation("endpoints|value", f"endpoints({desc}) = {sorted(got)}, expected {sorted(exp)}")
                got = need(lib(c.fanin_depth, arg), "fanin_depth", f"fanin_depth({desc})")
                exp = _longest(c, ns, forward=False)
                if got != exp:
                    raise Violation("fanin_depth|value", f"fanin_depth({desc}) = {got}, longest path {exp}")
                got = need(lib(c.fanout_depth, arg), "fanout_depth", f"fanout_depth({desc})")
                exp = _longest(c, ns, forward=True)
                if got != exp:
                    raise Violation("fanout_depth|value", f"fanout_depth({desc}) = {got}, longest path {exp}")
            else:
                for fn, nm in ((c.fanin_depth, "fanin_depth"), (c.fanout_depth, "fanout_depth")):
                    # the rejection does not depend on which depth (maximum / minimum) is asked for
                    for kw_ in ({}, {"maximum": True}, {"maximum": False}):
                        r = lib(fn, arg, **kw_)
                        if r.ok or r.type != "ValueError":
                            raise Violation(f"{nm}|cyclic_not_rejected", f"{nm}({desc}, {kw_}) on a cyclic circuit: {r.value if r.ok else r.text}")

    # topo_sort / levelize
    if not cyc:
        order = list(need(lib(lambda: list(c.topo_sort())), "topo_sort", "topo_sort()"))
        if sorted(order) != nodes:
            raise Violation("topo_sort|not_permutation", f"topo_sort() is not a permutation of the nodes: {order}")
        pos = {n: i for i, n in enumerate(order)}
        for u, v in g.edges:
            if pos[u] >= pos[v]:
                raise Violation("topo_sort|order", f"topo_sort() puts {u!r} after its successor {v!r}")
        sources_ok = all(g.nodes[n]["type"] in ("input", "0", "1", "x") for n in nodes if not g.pred[n])
        if sources_ok:
            lv = need(lib(cg.props.levelize, c), "levelize", "levelize(c)")
            if set(lv) != set(nodes):
                raise Violation("levelize|keys", "levelize keys != nodes")
            for n in nodes:
                exp = _longest(c, [n], forward=False)
                if lv[n] != exp:
                    raise Violation("levelize|value", f"levelize[{n!r}] = {lv[n]}, longest path from a source {exp}")
            labels.append("levelized")
    else:
        r = lib(cg.props.levelize, c)
        if r.ok or r.type != "ValueError":
            raise Violation("levelize|cyclic_not_rejected", f"levelize on cyclic circuit: {r.value if r.ok else r.text}")

    # reconvergent fan-out
    if not cyc:
        exp = set()
        reach = {n: {n} | refsim.descendants(c, [n]) for n in nodes}
        meeting_is_branch = False
        for n in nodes:
            fo = sorted(g.succ[n])
            for a, b in itertools.combinations(fo, 2):
                if reach[a] & reach[b]:
                    exp.add(n)
                    if b in reach[a] or a in reach[b]:
                        meeting_is_branch = True
        got_l = need(lib(lambda: list(c.reconvergent_fanout_nodes())), "reconv", "reconvergent_fanout_nodes()")
        if len(got_l) != len(set(got_l)):
            raise Violation("reconvergent|duplicates", f"reconvergent_fanout_nodes yields duplicates: {got_l}")
        if set(got_l) != exp:
            miss = sorted(exp - set(got_l))
            extra = sorted(set(got_l) - exp)
            raise Violation(
                "reconvergent|" + ("missed" if miss else "extra"),
                f"reconvergent_fanout_nodes() = {sorted(got_l)}; missed {miss}, extra {extra}",
            )
        has = need(lib(c.has_reconvergent_fanout), "has_reconv", "has_reconvergent_fanout()")
        if bool(has) != bool(exp):
            raise Violation("reconvergent|has", f"has_reconvergent_fanout() = {has}, expected {bool(exp)}")
        if exp:
            labels.append("reconvergent")
        if meeting_is_branch:
            labels.append("branch_is_meeting_point")

    # kcuts
    if not cyc and len(nodes) <= 9 and max([len(g.pred[n]) for n in nodes] + [0]) <= 3:
        k = case["k"]
        targets = nodes if case["args"] == "all" else sorted({a[0] for a in arglists})
        for n in targets:
            cuts = need(lib(lambda: list(c.kcuts(n, k))), "kcuts", f"kcuts({n!r},{k})")
            anc = refsim.ancestors(c, [n]) | {n}
            sources = [s for s in anc if not g.pred[s]]
            seen_trivial = False
            for cut in cuts:
                cut = set(cut)
                if cut == {n}:
                    seen_trivial = True
                    continue
                if len(cut) > k:
                    raise Violation("kcuts|size", f"kcuts({n!r},{k}) returned a cut of size {len(cut)}: {sorted(cut)}")
                if not cut <= anc:
                    raise Violation("kcuts|foreign", f"kcuts({n!r},{k}) cut {sorted(cut)} contains nodes outside the cone")
                # every path source -> n must hit the cut
                stack = [s for s in sources if s not in cut]
                seen = set(stack)
                while stack:
                    x = stack.pop()
                    if x == n:
                        raise Violation("kcuts|not_separating", f"kcuts({n!r},{k}) cut {sorted(cut)} does not separate {n!r} from the sources")
                    for y in g.succ[x]:
                        if y not in seen and y not in cut and y in anc:
                            seen.add(y)
                            stack.append(y)
            if not seen_trivial:
                raise Violation("kcuts|trivial_missing", f"kcuts({n!r},{k}) lacks the trivial cut")
        labels.append("kcuts_checked")

    if refsim.snapshot(c) != snap:
        raise Violation("queries|mutate", "a query modified the circuit")
    nontriv = any(len(g.succ[n]) >= 2 for n in nodes) and any(len(g.pred[n]) >= 2 for n in nodes)
    return {"nontrivial": nontriv, "labels": labels}
