"""C06 -- hierarchical composition is functional substitution."""
from hypothesis import strategies as st

import circuitgraph as cg
from cgv import refsim, specs
from cgv import strategies as S
from cgv.harness import Violation, lib, need

ID = "C06"
RULE = (
    "cases: histories of 1..4 composition steps on a generated parent circuit: add_subcircuit(child, "
    "name, connections); add_blackbox(bb, name, connections) followed immediately or after other steps "
    "by fill_blackbox(name, child); the same child under several names; children that contain a "
    "blackbox instance (nesting). Connection maps feed each child input optionally from an arbitrary "
    "parent net (input, gate, constant, node of an earlier instance) and let each child output "
    "optionally drive a fresh parent buf. Then strip_blackboxes with/without ignore_pins. Oracle after "
    "every step (reference simulation over all valuations of the free signals, or 64 drawn ones when "
    "> 11): every spliced node name_n equals n in the child simulated alone with its free signals set "
    "to the values of name_<free>; attached inputs equal their nets and driven buffers equal the child "
    "outputs; every pre-existing node keeps its function; parent inputs()/outputs() unchanged; registry "
    "gains name_<bb> (same BlackBox object) for child blackboxes and loses a filled instance together "
    "with its dotted pins; the child argument is never modified. strip_blackboxes: no blackbox left, "
    "pins renamed inst_pin with the right io type, ignored pins absent, all other nodes unchanged. "
    "Non-trivial: child has >= 2 gates with a connected input and a connected output, and the history "
    "has >= 2 steps or a nested blackbox. Distinct by digest."
)
RULE += " Added after seeded-change rounds 4-5: instances named <inst>.<x> while <inst> awaits its fill; parent nets named like nodes / nested pins of the spliced copy (the call must raise ValueError and leave the parent unchanged); ignore_pins strings containing another pin's name."
ASSUMPTIONS = [
    "reference simulator cgv.refsim",
    "child inputs and outputs are disjoint (a BlackBox cannot have one pin in both sets)",
    "instance names and node names chosen so that prefixes cannot collide (property does not speak about name clashes)",
]
EXHAUSTIVE_NOTE = "core: the library's mux and half-adder examples through add_subcircuit and through add_blackbox+fill_blackbox"
EXAMPLES = {"quick": 1000, "thorough": 20000}

POOL2 = [f"m{i}" for i in range(30)]
POOL3 = [f"q{i}" for i in range(30)]


def _mux_spec():
    return {"name": "mux", "nodes": [["in0", "input", [], False], ["in1", "input", [], False], ["sel0", "input", [], False],
                                      ["nsel", "not", ["sel0"], False], ["and0", "and", ["nsel", "in0"], False],
                                      ["and1", "and", ["sel0", "in1"], False], ["out", "or", ["and0", "and1"], True]],
            "bbtypes": [], "insts": []}


def _ha_spec():
    return {"name": "ha", "nodes": [["x", "input", [], False], ["y", "input", [], False], ["c", "and", ["x", "y"], True],
                                     ["s", "xor", ["x", "y"], True]], "bbtypes": [], "insts": []}


def core(ctx):
    parent = {"name": "p", "nodes": [["a", "input", [], False], ["b", "input", [], False], ["s", "input", [], False],
                                      ["k", "1", [], False], ["g", "nand", ["a", "b"], True]], "bbtypes": [], "insts": []}
    for via in ("sub", "bb"):
        steps = []
        for i, (ch, conns, fresh) in enumerate([
            (0, {"in0": "a", "in1": "g", "sel0": "s", "out": "fb0"}, ["fb0"]),
            (1, {"x": "fb0", "y": "k", "s": "fb1", "c": "fb2"}, ["fb1", "fb2"]),
            (0, {"in0": "fb1", "sel0": "s0_and0"}, []),
        ]):
            if via == "sub":
                steps.append({"op": "sub", "child": ch, "name": f"s{i}", "conns": conns, "fresh": fresh})
            else:
                steps.append({"op": "bb", "child": ch, "name": f"s{i}", "conns": conns, "fresh": fresh})
                steps.append({"op": "fill", "child": ch, "name": f"s{i}"})
        yield {"parent": parent, "children": [_mux_spec(), _ha_spec()], "steps": steps, "strip": None, "tables": None}
    # pins whose names contain a dot or end like another pin: ignoring `d` must not touch `bus.d` (F29)
    dotted = {"name": "p", "nodes": [["a", "input", [], False], ["b", "input", [], False], ["o", "buf", [], True], ["o2", "buf", [], True],
                                      ["g", "nand", ["a", "b"], True]],
              "bbtypes": [["cell", ["bus.d", "d", "sd"], ["q", "bus.q"]]],
              "insts": [["u0", 0, {"bus.d": "a", "d": "b", "sd": "g", "q": "o", "bus.q": "o2"}], ["u1", 0, {"bus.d": "g", "d": "a", "sd": "b"}]]}
    for ign in (None, "d", ["d"], "bus.d", ["bus.d", "q"], "q", ["bus.q"], ["sd", "d"]):
        yield {"parent": dotted, "children": [_mux_spec()], "steps": [], "strip": {"ignore": ign, "mark": 9}, "tables": None}


@st.composite
def _case(draw, ctx):
    ppools = (S.BENIGN,) if draw(st.integers(0, 3)) else (S.BENIGN, ["\\m.x", "\\m_x", "\\core.n1", "\\core_n1", "\\a.b.c"])
    if draw(st.integers(0, 7)) == 0:
        # ordinary nets named like nodes (or pins of nested instances) of a spliced copy: the call must refuse
        ppools = (S.BENIGN[:10], ["s0_u0.d", "s0_u0.q", "s1_u0.q", "s0_u0.clk", "s0_u0.Y", "s1_u0.d", "s0_m1", "s0_m2", "s1_q1", "s1_m3", "s0_q2"])
    elif draw(st.integers(0, 5)) == 0:
        # ordinary nets whose names look like a stripped blackbox pin <inst>_<pin>
        ppools = (S.BENIGN[:10], ["s0_q", "s0_d", "s1_q", "s0_clk", "s1_d", "s0_Y", "s0_A", "s2_q"])
    parent = draw(S.circuit_spec(min_inputs=1, max_inputs=3, min_gates=1, max_gates=5, max_fanin=3, name="p", pools=ppools))
    nch = draw(st.integers(1, 2))
    children = []
    for ci in range(nch):
        ch = draw(S.circuit_spec(min_inputs=1, max_inputs=3, min_gates=1, max_gates=5, max_fanin=3,
                                 pools=(POOL2 if ci == 0 else POOL3,), name=f"ch{ci}",
                                 max_insts=draw(st.sampled_from([0, 0, 1]))))
        children.append(ch)
    ft_child = None
    if draw(st.integers(0, 3)) == 0:
        # a child with a feed-through port (input that is also an output): add_subcircuit only
        ftc = draw(S.circuit_spec(min_inputs=1, max_inputs=3, min_gates=1, max_gates=4, max_fanin=3,
                                  pools=([f"z{i}" for i in range(20)],), name="chft", io_outputs=True))
        ins_ft = [x for x in ftc["nodes"] if x[1] == "input"]
        ins_ft[0][3] = True
        children.append(ftc)
        ft_child = len(children) - 1
    nets = [x[0] for x in parent["nodes"]]
    steps = []
    pending = []  # (name, child) blackboxes awaiting fill
    nsteps = draw(st.integers(1, 4))
    fresh_i = 0
    for si in range(nsteps):
        can_fill = bool(pending)
        op = draw(st.sampled_from(["sub", "bb", "bb"] + (["fill", "fill"] if can_fill else [])))
        if op == "fill":
            name, ci = pending.pop(draw(st.integers(0, len(pending) - 1)))
            steps.append({"op": "fill", "child": ci, "name": name})
            ch = children[ci]
            nets += [f"{name}_{x[0]}" for x in ch["nodes"]]
            continue
        ci = draw(st.integers(0, nch - 1))
        if ft_child is not None and draw(st.booleans()):
            ci, op = ft_child, "sub"
        ch = children[ci]
        name = f"s{si}"
        if pending and draw(st.integers(0, 5)) == 0:
            # an instance whose name extends the name of an instance still waiting to be filled
            name = f"{pending[draw(st.integers(0, len(pending) - 1))][0]}.i{si}"
        ins = [x[0] for x in ch["nodes"] if x[1] == "input"]
        outs = [x[0] for x in ch["nodes"] if x[3] and x[1] != "input"]
        conns = {}
        fresh = []
        for i in ins:
            if draw(st.integers(0, 3)) != 0:
                conns[i] = draw(st.sampled_from(nets))
        for o in outs:
            if draw(st.integers(0, 2)) != 0:
                fb = f"fb{fresh_i}"
                fresh_i += 1
                fresh.append(fb)
                conns[o] = fb
        step = {"op": op, "child": ci, "name": name, "conns": conns, "fresh": fresh}
        if op == "sub" and draw(st.integers(0, 5)) == 0:
            # non-default strip_io=False: child io stays io, so child inputs cannot be attached
            step["keep_io"] = True
            step["conns"] = {k: v for k, v in conns.items() if k in outs}
        steps.append(step)
        nets += fresh
        if op == "sub":
            nets += [f"{name}_{x[0]}" for x in ch["nodes"]]
        else:
            pending.append((name, ci))
            if draw(st.booleans()):
                pending.pop()
                steps.append({"op": "fill", "child": ci, "name": name})
                nets += [f"{name}_{x[0]}" for x in ch["nodes"]]
    strip = None
    if draw(st.booleans()):
        strip = {"mark": draw(st.integers(0, 9)), "ignore": draw(st.sampled_from([None, None, "clk", ["d"], ["q", "en"], "A", ["Y", "clk"], "d", "q", ["clk", "d"], "sd", "nq", "gclk", "qn", ["nq"], ["sd", "gclk"]]))}
    tables = draw(st.lists(st.integers(0, (1 << 64) - 1), min_size=24, max_size=24))
    return {"parent": parent, "children": children, "steps": steps, "strip": strip, "tables": tables}


def strategy(ctx):
    return _case(ctx)


def _sim(c, tables):
    free = refsim.free_nodes(c)
    if len(free) <= 11 or tables is None:
        asg, W = refsim.std_assignment(free)
    else:
        W = 64
        asg = {n: tables[i % len(tables)] ^ (i // len(tables)) for i, n in enumerate(free)}
    return asg, W, refsim.simulate(c, asg, W)


def _first_diff(a, b):
    return refsim.bits(a ^ b)[0]


def check(case, ctx):
    P = specs.build(case["parent"])
    if [b for b in refsim.ref_lint(P) if b[0] != "dotted_no_instance"]:
        raise specs.SpecError("parent not lint-clean")
    children = [specs.build(s) for s in case["children"]]
    for ch in children:
        if refsim.ref_lint(ch):
            raise specs.SpecError("child not lint-clean")
    child_snaps = [refsim.snapshot(ch) for ch in children]
    p_inputs, p_outputs = set(P.inputs()), set(P.outputs())
    bbobjs = {}
    bbtypes_by_child = {}
    labels = set()
    nested = False
    conn_in = conn_out = False
    for si, step in enumerate(case["steps"]):
        op = step["op"]
        ch = children[step["child"]]
        name = step["name"]
        where = f"step {si} {op} {name}"
        for fb in step.get("fresh", []):
            P.add(fb, "buf")
        before = P.copy()
        before_nodes = set(before.graph.nodes)
        reg_before = dict(P.blackboxes)
        conns = dict(step.get("conns", {}))
        keep_io = bool(step.get("keep_io"))
        if op in ("sub", "fill"):
            # the spliced copy is named <inst>_<node> (pins of nested instances included): when the parent already
            # has a node of such a name the call must refuse (ValueError) and leave the parent as it was
            spliced = {f"{name}_{x_}" for x_ in ch.graph.nodes}
            own_pins = {f"{name}.{p_}" for p_ in (set(ch.inputs()) | set(ch.outputs()))} if op == "fill" else set()
            clash = sorted(spliced & (set(P.graph.nodes) - own_pins))
            if clash:
                r_ = lib(P.fill_blackbox, name, ch) if op == "fill" else lib(P.add_subcircuit, ch, name, conns, **({"strip_io": False} if keep_io else {}))
                if r_.ok:
                    raise Violation(f"{op}|overlap_accepted", f"{where}: parent already has {clash[:3]}, the call was accepted and merged them")
                if r_.type != "ValueError":
                    raise Violation(f"{op}|overlap_{r_.type}", f"{where}: name overlap {clash[:3]}: {r_.text}")
                if refsim.snapshot(P) != refsim.snapshot(before) or dict(P.blackboxes) != reg_before:
                    raise Violation(f"{op}|overlap_refusal_left_state", f"{where}: refused call changed the parent")
                return {"nontrivial": True, "labels": sorted(labels | {"overlap_refused"})}
        if op == "sub" and keep_io:
            need(lib(P.add_subcircuit, ch, name, conns, strip_io=False), "add_subcircuit_keep_io", where)
            p_inputs |= {f"{name}_{i}" for i in ch.inputs()}
            p_outputs |= {f"{name}_{o}" for o in ch.outputs()}
            labels.add("strip_io_false")
        elif op == "sub":
            need(lib(P.add_subcircuit, ch, name, conns), "add_subcircuit", where)
        elif op == "bb":
            # instances of the same child share one BlackBox object, as netlists with many flops do
            bb = bbtypes_by_child.setdefault(step["child"], cg.BlackBox(f"t_{step['child']}", sorted(ch.inputs()), sorted(ch.outputs())))
            bbobjs[name] = bb
            need(lib(P.add_blackbox, bb, name, conns), "add_blackbox", where)
        else:
            need(lib(P.fill_blackbox, name, ch), "fill_blackbox", where)
        labels.add(op)
        if refsim.snapshot(ch) != child_snaps[step["child"]]:
            raise Violation(f"{op}|child_modified", f"{where}: the child argument was modified")
        if set(P.inputs()) != p_inputs:
            raise Violation(f"{op}|parent_inputs", f"{where}: parent inputs changed to {sorted(P.inputs())}")
        if set(P.outputs()) != p_outputs:
            raise Violation(f"{op}|parent_outputs", f"{where}: parent outputs changed to {sorted(P.outputs())}")
        # registry
        exp_reg = dict(reg_before)
        if op == "bb":
            exp_reg[name] = bbobjs[name]
        if op == "fill":
            exp_reg.pop(name, None)
        if op in ("sub", "fill"):
            for k, b in ch.blackboxes.items():
                exp_reg[f"{name}_{k}"] = b
                nested = True
        if set(P.blackboxes) != set(exp_reg) or any(P.blackboxes[k] is not exp_reg[k] for k in exp_reg):
            raise Violation(f"{op}|registry", f"{where}: registry is {sorted(P.blackboxes)}, expected {sorted(exp_reg)}")
        bad = [b for b in refsim.ref_lint(P, undriven=False) if b[0] != "dotted_no_instance"]
        if bad:
            raise Violation(f"{op}|lint", f"{where}: result violates wiring rules {bad[:3]}")
        g = P.graph
        if op == "bb":
            # pins exist and are attached as requested; pre-existing nodes unchanged
            for pin in ch.inputs():
                pn = f"{name}.{pin}"
                drv = sorted(g.pred[pn]) if pn in g.nodes else None
                if drv != ([conns[pin]] if pin in conns else []):
                    raise Violation("bb|pin_wiring", f"{where}: pin {pn} driven by {drv}, requested {conns.get(pin)}")
            for pin in ch.outputs():
                pn = f"{name}.{pin}"
                ld = sorted(g.succ[pn]) if pn in g.nodes else None
                if ld != ([conns[pin]] if pin in conns else []):
                    raise Violation("bb|pin_wiring", f"{where}: pin {pn} drives {ld}, requested {conns.get(pin)}")
            for n in before_nodes:
                if dict(g.nodes[n]) != dict(before.graph.nodes[n]):
                    raise Violation("bb|attrs", f"{where}: node {n!r} attributes changed")
            continue
        # functional checks for sub / fill
        # on fill only the pins of the filled instance are renamed <inst>.<pin> -> <inst>_<pin>; other nodes that
        # merely start with "<inst>." (pins of an instance called <inst>.<x>, escaped names) keep their names
        fill_pins = {f"{name}.{p_}": f"{name}_{p_}" for p_ in (set(ch.inputs()) | set(ch.outputs()))} if op == "fill" else {}
        ren = lambda n: fill_pins.get(n, n)  # noqa: E731
        for n in before_nodes:
            if ren(n) not in g.nodes:
                raise Violation(f"{op}|node_lost", f"{where}: pre-existing node {n!r} disappeared")
        if op == "fill":
            for pin in list(ch.inputs()) + list(ch.outputs()):
                if f"{name}.{pin}" in g.nodes:
                    raise Violation("fill|pins_left", f"{where}: dotted pin {name}.{pin} still present")
        for n in ch.graph.nodes:
            if f"{name}_{n}" not in g.nodes:
                raise Violation(f"{op}|spliced_node_missing", f"{where}: spliced node {name}_{n} missing")
        asg, W, val = _sim(P, case["tables"])
        # (1) spliced nodes behave like the child
        ch_free = refsim.free_nodes(ch)
        casg = {f: val[f"{name}_{f}"] for f in ch_free}
        cval = refsim.simulate(ch, casg, W)
        for n, v in cval.items():
            if val[f"{name}_{n}"] != v:
                j = _first_diff(val[f"{name}_{n}"], v)
                raise Violation(
                    f"{op}|spliced_value",
                    f"{where}: spliced node {name}_{n} = {(val[f'{name}_{n}'] >> j) & 1} but child node {n!r} = {(v >> j) & 1} "
                    f"for child inputs { {f: (casg[f] >> j) & 1 for f in ch_free} }",
                )
        # attachments
        if op == "sub":
            for io, net in conns.items():
                if io in ch.inputs():
                    conn_in = True
                    if val[f"{name}_{io}"] != val[net]:
                        raise Violation("sub|input_attachment", f"{where}: child input {io!r} does not follow net {net!r}")
                else:
                    conn_out = True
                    if val[net] != val[f"{name}_{io}"]:
                        raise Violation("sub|output_attachment", f"{where}: buffer {net!r} does not follow child output {io!r}")
            for i in ch.inputs():
                if i not in conns and g.pred[f"{name}_{i}"]:
                    raise Violation("sub|unrequested_driver", f"{where}: unattached child input {i!r} is driven")
        # (2) pre-existing nodes keep their function
        bfree = refsim.free_nodes(before)
        basg = {}
        for f in bfree:
            basg[f] = val[ren(f)]
        bval = refsim.simulate(before, basg, W)
        for n, v in bval.items():
            if val[ren(n)] != v:
                j = _first_diff(val[ren(n)], v)
                raise Violation(f"{op}|preexisting_changed", f"{where}: pre-existing node {n!r} changed its function")
        for n in before_nodes:
            a, b = dict(g.nodes[ren(n)]), dict(before.graph.nodes[n])
            if op == "fill" and n.startswith(f"{name}."):
                continue
            if a != b:
                raise Violation(f"{op}|attrs", f"{where}: node {n!r} attributes changed {b} -> {a}")
        if op == "fill":
            conn_in = conn_in or any(before.graph.pred[f"{name}.{i}"] for i in ch.inputs())
            conn_out = conn_out or any(before.graph.succ[f"{name}.{o}"] for o in ch.outputs())
    # strip_blackboxes
    if case.get("strip") is not None and P.blackboxes:
        ign = case["strip"]["ignore"]
        ign_l = [] if ign is None else ([ign] if isinstance(ign, str) else list(ign))
        mk = case["strip"].get("mark", 9)
        pins_in = sorted(n for n in P.graph.nodes if P.graph.nodes[n]["type"] == "bb_input")
        if mk < 3 and pins_in:
            # the user has marked a blackbox input pin as an output of the design (observing what the cell receives);
            # exposing the pins turns every input pin into an output anyway, so the expected result is the same
            need(lib(P.set_output, pins_in[mk % len(pins_in)]), "set_output", "set_output(<bb_input pin>)")
            labels.add("pin_marked_output")
        snap = refsim.snapshot(P)
        out = lib(cg.tx.strip_blackboxes, P, ign) if ign is not None else lib(cg.tx.strip_blackboxes, P)
        # the pin name of a pin node comes from the registry (pin names may contain dots: u0.bus.d is pin bus.d of u0)
        pin_of = {f"{i_}.{p_}": p_ for i_, bb_ in P.blackboxes.items() for p_ in (set(bb_.inputs()) | set(bb_.outputs()))}
        clash = sorted(n.replace(".", "_") for n in P.graph.nodes
                       if P.graph.nodes[n]["type"] in ("bb_input", "bb_output") and pin_of.get(n, n.split(".")[-1]) not in ign_l
                       and n.replace(".", "_") in P.graph.nodes)
        if clash:
            # renaming would merge a pin with an existing net: the documented behaviour is to refuse
            if out.ok or out.type != "ValueError":
                raise Violation("strip|overlap_not_refused", f"pin names {clash} collide with existing nets but strip_blackboxes "
                                f"{'returned a circuit' if out.ok else 'raised ' + out.text}")
            labels.add("strip_overlap_refused")
            ngates = max(specs.spec_stats(s)["n_gates"] for s in case["children"])
            return {"nontrivial": False, "labels": sorted(labels)}
        r = need(out, "strip_blackboxes", f"strip_blackboxes(ignore_pins={ign})")
        if refsim.snapshot(P) != snap:
            raise Violation("strip|mutates_argument", "strip_blackboxes modified its argument")
        if r.blackboxes:
            raise Violation("strip|registry", f"blackboxes left: {sorted(r.blackboxes)}")
        g, rg = P.graph, r.graph
        exp_nodes = {}
        for n in g.nodes:
            t = g.nodes[n]["type"]
            if t in ("bb_input", "bb_output"):
                if pin_of.get(n, n.split(".")[-1]) in ign_l:
                    continue
                exp_nodes[n.replace(".", "_")] = (n, "buf" if t == "bb_input" else "input")
            else:
                exp_nodes[n] = (n, t)
        if set(rg.nodes) != set(exp_nodes):
            raise Violation("strip|nodes", f"node set differs: {sorted(set(rg.nodes) ^ set(exp_nodes))[:6]}")
        back = {new: old for new, (old, t) in exp_nodes.items()}
        for new, (old, t) in exp_nodes.items():
            if rg.nodes[new].get("type") != t:
                raise Violation("strip|type", f"{new!r} has type {rg.nodes[new].get('type')!r}, expected {t!r}")
            was_pin = g.nodes[old]["type"] in ("bb_input", "bb_output")
            exp_out = True if g.nodes[old]["type"] == "bb_input" else bool(g.nodes[old].get("output"))
            if bool(rg.nodes[new].get("output")) != exp_out:
                raise Violation("strip|output_mark", f"{new!r} output mark {rg.nodes[new].get('output')!r}, expected {exp_out}")
            exp_pred = {p.replace(".", "_") if g.nodes[p]["type"] in ("bb_input", "bb_output") else p
                        for p in g.pred[old] if p.replace(".", "_") in exp_nodes or p in exp_nodes}
            exp_pred = {p for p in exp_pred if p in exp_nodes}
            if set(rg.pred[new]) != exp_pred:
                raise Violation("strip|fanin", f"{new!r} fan-in {sorted(rg.pred[new])}, expected {sorted(exp_pred)}")
        labels.add("strip")
        if ign_l:
            labels.add("strip_ignore")
    ngates = max(specs.spec_stats(s)["n_gates"] for s in case["children"])
    nontriv = ngates >= 2 and conn_in and conn_out and (len(case["steps"]) >= 2 or nested)
    if nested:
        labels.add("nested_blackbox")
    return {"nontrivial": bool(nontriv), "labels": sorted(labels)}
