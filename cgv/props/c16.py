"""C16 -- remove_unloaded deletes exactly the dead logic."""
from hypothesis import strategies as st

import circuitgraph as cg
from cgv import refsim, specs
from cgv import strategies as S
from cgv.harness import Violation, lib, need

ID = "C16"
RULE = (
    "cases: acyclic circuit specs whose outputs are drawn at random (so dead sub-graphs of every shape "
    "occur: dead gates fed only by inputs, inputs with no load, inputs loaded only by dead logic, dead "
    "chains/diamonds, dead nodes sharing fan-in with live logic, dead constants), with blackbox pins "
    "(loaded and unloaded bb outputs, unconnected pins) for inputs=False and blackbox-free for "
    "inputs=True; the call is applied twice. Oracle: live = nodes from which an output or bb_input pin "
    "is reachable (reverse BFS); deleted set must be exactly the non-live gates and constants (plus "
    "non-live inputs when inputs=True); inputs and blackbox pins survive inputs=False; returned list = "
    "deleted set without duplicates; survivors keep type, output mark and fan-in; second call returns "
    "nothing and changes nothing. Non-trivial: dead set non-empty and contains a dead chain of length "
    ">= 2 or an initially unloaded input. Distinct by digest."
)
RULE += ' Added after seeded-change rounds 4-5: dotted (escaped-style) dead nets, dead x constants, an earlier remove_unloaded call with either flag value on another circuit in the same case.'
ASSUMPTIONS = ["reference liveness computed on c.graph by the check", "inputs=True only on blackbox-free circuits (as the property states)"]
EXHAUSTIVE_NOTE = "core: dead chains / ladders of 60, 400 and 2500 gates in both storage orders; all circuits with 2 inputs and up to 3 gates from {buf, and} over all fan-in choices and all output markings"
EXAMPLES = {"quick": 1500, "thorough": 40000}


def _big(n, shape):
    nodes = [["a", "input", [], False], ["b", "input", [], False], ["live", "and", ["a", "b"], True]]
    prev = "live"
    for i in range(n):
        if shape == "chain":
            nodes.append([f"d{i}", "buf" if i % 2 else "not", [prev], False])
        else:  # ladder: every rung has two dead loads
            nodes.append([f"d{i}", "and", [prev, "a"] if i else ["a", "b"], False])
        prev = f"d{i}"
    return {"name": "c", "nodes": nodes, "bbtypes": [], "insts": []}


def core(ctx):
    # large dead cones: depth must not matter
    for n in (60, 400, 2500):
        for shape in ("chain", "ladder"):
            for inp in (False, True):
                yield {"spec": _big(n, shape), "inputs": inp}
                rev = _big(n, shape)
                rev["nodes"] = rev["nodes"][::-1]
                yield {"spec": rev, "inputs": inp}
    # shape enumeration: gates g0..g2, each buf(one earlier node) or and(two earlier nodes)
    import itertools

    base = ["a", "b"]
    def gen(k, nodes):
        if k == 0:
            yield nodes
            return
        avail = [x[0] for x in nodes]
        name = f"g{len(nodes) - 2}"
        for p in avail:
            yield from gen(k - 1, nodes + [[name, "buf", [p], False]])
        for p, q in itertools.combinations(avail, 2):
            yield from gen(k - 1, nodes + [[name, "and", [p, q], False]])

    for ng in range(0, 4):
        for nodes in gen(ng, [["a", "input", [], False], ["b", "input", [], False]]):
            names = [x[0] for x in nodes]
            for mask in range(1 << len(names)):
                ns = [[x[0], x[1], list(x[2]), bool((mask >> i) & 1)] for i, x in enumerate(nodes)]
                if ng == 3 and mask % 3:  # thin out the largest layer deterministically
                    continue
                for inp in (False, True):
                    yield {"spec": {"name": "c", "nodes": ns, "bbtypes": [], "insts": []}, "inputs": inp}


@st.composite
def _case(draw, ctx):
    inp = draw(st.booleans())
    spec = draw(
        S.circuit_spec(
            min_inputs=1, max_inputs=5, min_gates=1, max_gates=12, max_fanin=3,
            max_insts=0 if inp else draw(st.sampled_from([0, 1, 2])),
            unconnected_pins=True, outputs="random", io_outputs=True,
            const_types=("0", "1", "x") if draw(st.integers(0, 2)) == 0 else ("0", "1"),
            pools=(S.BENIGN, ["\\u1.dbg", "\\core.n1", "\\a.b.c", "\\m.x", "\\top.u2.q"]) if (inp and draw(st.integers(0, 3)) == 0) else (S.BENIGN,),
        )
    )
    return {"spec": spec, "inputs": inp, "raw_attrs": draw(st.integers(0, 3)) == 0,
            "prior": draw(st.sampled_from([None, None, True, False]))}


def strategy(ctx):
    return _case(ctx)


def check(case, ctx):
    spec = case["spec"]
    c = specs.build(spec)
    g = c.graph
    if case.get("raw_attrs"):
        # as built by the fast Verilog parser: non-output nodes carry no 'output' attribute at all
        for n in g.nodes:
            if not g.nodes[n].get("output"):
                g.nodes[n].pop("output", None)
    inp = case["inputs"]
    nodes = set(g.nodes)
    typ = {n: g.nodes[n]["type"] for n in nodes}
    before = refsim.snapshot(c)
    pred0 = {n: set(g.pred[n]) for n in nodes}
    succ0 = {n: set(g.succ[n]) for n in nodes}
    out0 = {n: bool(g.nodes[n].get("output")) for n in nodes}
    roots = [n for n in nodes if g.nodes[n].get("output") or typ[n] == "bb_input"]
    live = set(roots) | refsim.ancestors(c, roots)
    exp_del = set()
    for n in nodes - live:
        t = typ[n]
        if t in ("bb_input", "bb_output"):
            continue
        if t == "input" and not inp:
            continue
        exp_del.add(n)
    if case.get("prior") is not None:
        # an earlier call on another circuit in the same process, with the other (or the same) flag value
        other = cg.Circuit(name="earlier")
        other.add("i0", "input")
        other.add("i1", "input")
        other.add("dead", "and", fanin=["i0", "i1"])
        other.add("o", "buf", fanin="i0", output=True)
        lib(other.remove_unloaded, inputs=bool(case["prior"]))
    removed = need(lib(c.remove_unloaded, inputs=inp) if inp else lib(c.remove_unloaded), "remove_unloaded", f"remove_unloaded(inputs={inp})")
    removed = list(removed)
    after_nodes = set(c.graph.nodes)
    gone = nodes - after_nodes
    if after_nodes - nodes:
        raise Violation("remove_unloaded|added", f"nodes appeared: {sorted(after_nodes - nodes)}")
    wrongly = gone - exp_del
    if wrongly:
        kinds = sorted({typ[n] for n in wrongly})
        pin = any(typ[n] in ("input", "bb_output", "bb_input") for n in wrongly)
        liveones = wrongly & live
        if liveones:
            raise Violation("remove_unloaded|deleted_live", f"deleted live nodes {sorted(liveones)} (inputs={inp})")
        raise Violation(
            "remove_unloaded|deleted_" + ("input_or_pin" if pin else "other"),
            f"remove_unloaded(inputs={inp}) deleted {sorted(wrongly)} of types {kinds} which must survive",
        )
    kept = exp_del - gone
    if kept:
        raise Violation("remove_unloaded|kept_dead", f"dead nodes survive (inputs={inp}): {sorted(kept)}")
    if len(removed) != len(set(removed)):
        raise Violation("remove_unloaded|return_duplicates", f"returned list has duplicates: {removed}")
    if set(removed) != gone:
        raise Violation("remove_unloaded|return_value", f"returned {sorted(removed)} but deleted {sorted(gone)}")
    for n in after_nodes:
        if c.graph.nodes[n] != before["nodes"][n]:
            raise Violation("remove_unloaded|attrs", f"survivor {n!r} attributes changed")
        exp_pred = {u for (u, v) in before["edges"] if v == n}
        if set(c.graph.pred[n]) != exp_pred - gone or (n in live and exp_pred & gone):
            raise Violation("remove_unloaded|fanin", f"survivor {n!r} fan-in changed")
    if c.blackboxes.keys() != before["bbs"].keys():
        raise Violation("remove_unloaded|registry", "blackbox registry changed")
    snap2 = refsim.snapshot(c)
    again = need(lib(c.remove_unloaded, inputs=inp), "remove_unloaded2", "second remove_unloaded")
    if list(again) or refsim.snapshot(c) != snap2:
        raise Violation("remove_unloaded|not_idempotent", f"second call removed {list(again)}")
    # non-triviality
    dead = nodes - live
    chain = any(pred0[n] & dead for n in dead if typ[n] not in ("input",))
    init_unl_input = any(typ[n] == "input" and not succ0[n] and not out0[n] for n in nodes)
    labels = []
    if dead:
        labels.append("has_dead")
    if chain:
        labels.append("dead_chain")
    if init_unl_input:
        labels.append("initially_unloaded_input")
    if any(typ[n] == "bb_output" and not succ0[n] for n in nodes):
        labels.append("unloaded_bb_output")
    if any(typ[n] == "input" and succ0[n] and n not in live for n in nodes):
        labels.append("input_feeding_only_dead")
    if spec["insts"]:
        labels.append("has_blackbox")
    labels.append(f"inputs={inp}")
    return {"nontrivial": bool(dead and (chain or init_unl_input)), "labels": labels}
