"""C13 -- generated arithmetic blocks compute the arithmetic they name."""
from hypothesis import strategies as st

import circuitgraph as cg
from cgv import refsim
from cgv.harness import Violation, lib, need

ID = "C13"
RULE = (
    "cases: adder(w,cin,cout) / mux(w) / popcount(w) / half_adder / full_adder blocks "
    "simulated by the reference simulator on all input vectors (small w: adder w<=6, mux "
    "w+clog2(w)<=13, popcount w<=12) or on 64 Hypothesis-drawn vectors per case (w up to 64), "
    "compared with integer arithmetic; clog2 vs (n-1).bit_length(); int_to_bin/bin_to_int "
    "round trip in both endiannesses. Non-trivial: width >= 2 and some vector produces a "
    "carry out of a bit position (adder), a select value >= w or > 0 (mux), a count >= 2 "
    "(popcount); helper cases with n > 2 / w >= 2. Distinct by digest of the case description."
)
RULE += ' Added after seeded-change rounds 4-5: adder flags also passed positionally; bin_to_int on a list must leave the list unchanged and give the same answer twice.'
ASSUMPTIONS = [
    "reference simulator cgv.refsim (bit-parallel evaluation of the gate functions documented in circuit.py)",
    "sampled (not exhaustive) vectors for widths above the exhaustive bound",
]
EXHAUSTIVE_NOTE = (
    "core enumerates completely: adder w=1..6 x cin x cout all vectors; mux w=1..9 all vectors; "
    "popcount w=1..11 all vectors; half/full adder; clog2 n=1..4096; int_to_bin/bin_to_int all i<2^w, w<=10"
)
EXAMPLES = {"quick": 60, "thorough": 1500}


def core(ctx):
    for w in range(1, 7):
        for cin in (False, True):
            for cout in (False, True):
                yield {"k": "adder", "w": w, "cin": cin, "cout": cout, "tables": None}
    for w in range(1, 10):
        yield {"k": "mux", "w": w, "tables": None}
    for w in range(1, 12):
        yield {"k": "popcount", "w": w, "tables": None}
    yield {"k": "ha"}
    yield {"k": "fa"}
    big_t = [(0x9E3779B97F4A7C15 * (i + 1)) & ((1 << 64) - 1) for i in range(140)]
    yield {"k": "mux", "w": 257, "tables": big_t}
    yield {"k": "adder", "w": 70, "cin": True, "cout": True, "tables": big_t}
    # widths beyond small-integer caches and byte boundaries, each flag combination once
    yield {"k": "adder", "w": 257, "cin": False, "cout": True, "tables": big_t}
    yield {"k": "adder", "w": 258, "cin": False, "cout": True, "tables": big_t}
    yield {"k": "adder", "w": 259, "cin": True, "cout": True, "tables": big_t}
    yield {"k": "adder", "w": 300, "cin": True, "cout": False, "tables": big_t}
    for w in (63, 64, 65, 66, 100, 128, 129, 200):
        for lend in (False, True):
            vals = [0, 1, (1 << w) - 1, 1 << (w - 1), (1 << 64) % (1 << w), ((1 << 64) + 5) % (1 << w), (0xDEADBEEFCAFEBABE1234567 * 3) % (1 << w)]
            yield {"k": "bin", "w": w, "lend": lend, "vals": vals}
    # the same block requested again after the first copy was modified by its owner
    for w in (3, 2, 3, 5, 5):
        yield {"k": "adder", "w": w, "cin": False, "cout": w != 3, "tables": None}
        yield {"k": "popcount", "w": w, "tables": None}
        yield {"k": "mux", "w": w, "tables": None}
    if ctx.tier == "thorough":
        big = [(0x9E3779B97F4A7C15 * (i + 1)) & ((1 << 64) - 1) for i in range(140)]
        for w in (130, 300):
            yield {"k": "adder", "w": w, "cin": True, "cout": True, "tables": big}
            yield {"k": "mux", "w": w, "tables": big}
        for w in (257, 1100):
            yield {"k": "popcount", "w": w, "tables": big}
    for lo in range(1, 4097, 256):
        yield {"k": "clog2", "ns": list(range(lo, lo + 256))}
    yield {"k": "clog2_bad", "ns": [0, -1, -7]}
    for w in range(0, 11):
        for lend in (False, True):
            yield {"k": "bin", "w": w, "lend": lend, "vals": None}


def strategy(ctx):
    big = 64 if ctx.tier == "thorough" else 40
    tabs = st.lists(st.integers(0, (1 << 64) - 1), min_size=140, max_size=140)
    adder = st.builds(
        lambda w, cin, cout, t: {"k": "adder", "w": w, "cin": cin, "cout": cout, "tables": t},
        st.integers(1, big), st.booleans(), st.booleans(), tabs,
    )
    mux = st.builds(
        lambda w, t: {"k": "mux", "w": w, "tables": t}, st.integers(1, big), tabs
    )
    pc = st.builds(
        lambda w, t: {"k": "popcount", "w": w, "tables": t}, st.integers(1, big), tabs
    )
    cl = st.builds(
        lambda ns: {"k": "clog2", "ns": ns},
        st.lists(
            st.one_of(
                st.integers(1, 1 << 20),
                st.integers(0, 64).map(lambda e: 1 << e),
                st.integers(1, 64).map(lambda e: (1 << e) + 1),
                st.integers(1, 64).map(lambda e: (1 << e) - 1),
            ),
            min_size=1,
            max_size=50,
        ),
    )
    bn = st.integers(1, 160).flatmap(
        lambda w: st.builds(
            lambda lend, vals: {"k": "bin", "w": w, "lend": lend, "vals": vals},
            st.booleans(),
            st.lists(st.integers(0, (1 << w) - 1), min_size=1, max_size=40),
        )
    )
    return st.one_of(adder, adder, mux, pc, pc, cl, bn)


def _assign(free, tables):
    """free: ordered list; tables None -> exhaustive."""
    if tables is None:
        return refsim.std_assignment(free)
    W = 64
    asg = {}
    for i, n in enumerate(free):
        asg[n] = tables[i % len(tables)] ^ (i // len(tables))
    return asg, W


def _lint_ok(c, what):
    r = lib(cg.lint, c)
    if not r.ok:
        raise Violation("lint|" + what, f"{what}: cg.lint rejects the generated block: {r.text}")
    v = refsim.ref_lint(c)
    if v:
        raise Violation("reflint|" + what, f"{what}: block violates lint rules {v[:3]}")


def _wreck(c):
    """The caller owns a generated block and may do anything with it; later calls of the
    generator must be unaffected (a generator must not hand out a shared object)."""
    for n in list(c.graph.nodes)[::2]:
        c.graph.remove_node(n)
    for n in c.graph.nodes:
        c.graph.nodes[n]["type"] = "buf"
        c.graph.nodes[n]["output"] = True
    c.name = "wrecked"


def _bit(t, j):
    return (t >> j) & 1


def check(case, ctx):
    k = case["k"]
    if k == "adder":
        w, cin, cout = case["w"], case["cin"], case["cout"]
        if (w + cin + 2 * cout) % 2:
            c = need(lib(cg.logic.adder, w, cin, cout), "adder", f"adder({w},{cin},{cout}) [positional: width, carry_in, carry_out]")
        else:
            c = need(lib(cg.logic.adder, w, carry_in=cin, carry_out=cout), "adder", f"adder({w},carry_in={cin},carry_out={cout})")
        exp_in = {f"a_{i}" for i in range(w)} | {f"b_{i}" for i in range(w)} | ({"cin"} if cin else set())
        exp_out = {f"out_{i}" for i in range(w)} | ({"cout"} if cout else set())
        if c.inputs() != exp_in or c.outputs() != exp_out:
            raise Violation("adder|io", f"adder({w},{cin},{cout}) io: {sorted(c.inputs())} {sorted(c.outputs())}")
        _lint_ok(c, "adder")
        free = [f"a_{i}" for i in range(w)] + [f"b_{i}" for i in range(w)] + (["cin"] if cin else [])
        if sorted(free) != refsim.free_nodes(c):
            raise Violation("adder|free", f"free nodes {refsim.free_nodes(c)}")
        asg, W = _assign(free, case["tables"])
        val = refsim.simulate(c, asg, W)
        carry_seen = False
        for j in range(W):
            a = sum(_bit(asg[f"a_{i}"], j) << i for i in range(w))
            b = sum(_bit(asg[f"b_{i}"], j) << i for i in range(w))
            ci = _bit(asg["cin"], j) if cin else 0
            s = a + b + ci
            got = sum(_bit(val[f"out_{i}"], j) << i for i in range(w))
            if got != s % (1 << w):
                raise Violation("adder|sum", f"adder w={w} cin={cin}: {a}+{b}+{ci} -> {got}")
            if cout and _bit(val["cout"], j) != (s >> w):
                raise Violation("adder|cout", f"adder w={w}: {a}+{b}+{ci} cout={_bit(val['cout'], j)}")
            if (a & b) or s >> w:
                carry_seen = True
        _wreck(c)
        return {"nontrivial": w >= 2 and carry_seen, "labels": ["adder", f"adder_w{'<=6' if w <= 6 else '>6'}"]}
    if k == "mux":
        w = case["w"]
        c = need(lib(cg.logic.mux, w), "mux", f"mux({w})")
        ns = cg.utils.clog2(w)
        ns_ref = (w - 1).bit_length()
        if ns != ns_ref:
            raise Violation("clog2", f"clog2({w})={ns}")
        exp_in = {f"in_{i}" for i in range(w)} | {f"sel_{i}" for i in range(ns_ref)}
        if c.inputs() != exp_in or c.outputs() != {"out"}:
            raise Violation("mux|io", f"mux({w}) io {sorted(c.inputs())} {sorted(c.outputs())}")
        _lint_ok(c, "mux")
        free = [f"sel_{i}" for i in range(ns_ref)] + [f"in_{i}" for i in range(w)]
        if case["tables"] is None and len(free) > 13:
            # too wide for the exhaustive core: exhaustive selects, walking-one data
            return {"nontrivial": False, "labels": ["mux_skipped_wide"]}
        asg, W = _assign(free, case["tables"])
        val = refsim.simulate(c, asg, W)
        big = False
        for j in range(W):
            sel = sum(_bit(asg[f"sel_{i}"], j) << i for i in range(ns_ref))
            exp = _bit(asg[f"in_{sel}"], j) if sel < w else 0
            if sel >= w or sel > 0:
                big = True
            if _bit(val["out"], j) != exp:
                raise Violation("mux|out", f"mux({w}) sel={sel}: out={_bit(val['out'], j)} expected {exp}")
        _wreck(c)
        return {"nontrivial": w >= 2 and big, "labels": ["mux"]}
    if k == "popcount":
        w = case["w"]
        c = need(lib(cg.logic.popcount, w), "popcount", f"popcount({w})")
        if c.inputs() != {f"in_{i}" for i in range(w)}:
            raise Violation("popcount|io", f"popcount({w}) inputs {sorted(c.inputs())}")
        outs = sorted(c.outputs())
        idx = []
        for o in outs:
            if not o.startswith("out_") or not o[4:].isdigit():
                raise Violation("popcount|io", f"popcount({w}) output name {o}")
            idx.append(int(o[4:]))
        if sorted(idx) != list(range(len(idx))):
            raise Violation("popcount|io", f"popcount({w}) outputs {outs}")
        if (1 << len(idx)) <= w:
            raise Violation("popcount|io", f"popcount({w}) has only {len(idx)} output bits")
        _lint_ok(c, "popcount")
        free = [f"in_{i}" for i in range(w)]
        asg, W = _assign(free, case["tables"])
        val = refsim.simulate(c, asg, W)
        two = False
        for j in range(W):
            cnt = sum(_bit(asg[f], j) for f in free)
            got = sum(_bit(val[f"out_{i}"], j) << i for i in idx)
            if cnt >= 2:
                two = True
            if got != cnt:
                raise Violation("popcount|count", f"popcount({w}) on {cnt} ones -> {got}")
        _wreck(c)
        return {"nontrivial": w >= 2 and two, "labels": ["popcount"]}
    if k in ("ha", "fa"):
        c = need(lib(cg.logic.half_adder if k == "ha" else cg.logic.full_adder), k, k)
        _lint_ok(c, k)
        free = ["x", "y"] + (["cin"] if k == "fa" else [])
        if c.inputs() != set(free):
            raise Violation(k + "|io", f"inputs {sorted(c.inputs())}")
        exp_out = {"s", "c"} if k == "ha" else {"s", "cout"}
        if c.outputs() != exp_out:
            raise Violation(k + "|io", f"outputs {sorted(c.outputs())}")
        asg, W = refsim.std_assignment(free)
        val = refsim.simulate(c, asg, W)
        for j in range(W):
            tot = sum(_bit(asg[f], j) for f in free)
            cn = "c" if k == "ha" else "cout"
            if _bit(val["s"], j) != tot & 1 or _bit(val[cn], j) != tot >> 1:
                raise Violation(k + "|value", f"{k} on {tot} ones: s={_bit(val['s'], j)} c={_bit(val[cn], j)}")
        _wreck(c)
        return {"nontrivial": True, "labels": [k]}
    if k == "clog2":
        for n in case["ns"]:
            got = need(lib(cg.utils.clog2, n), "clog2", f"clog2({n})")
            if got != (n - 1).bit_length():
                raise Violation("clog2|value", f"clog2({n}) = {got}, expected {(n - 1).bit_length()}")
        return {"nontrivial": any(n > 2 for n in case["ns"]), "labels": ["clog2"]}
    if k == "clog2_bad":
        for n in case["ns"]:
            r = lib(cg.utils.clog2, n)
            if r.ok or r.type != "ValueError":
                raise Violation("clog2|reject", f"clog2({n}) did not raise ValueError: {r.value if r.ok else r.text}")
        return {"nontrivial": False, "labels": ["clog2_reject"]}
    if k == "bin":
        w, lend = case["w"], case["lend"]
        vals = case["vals"] if case["vals"] is not None else range(1 << w)
        for i in vals:
            b = need(lib(cg.utils.int_to_bin, i, w, lend), "int_to_bin", f"int_to_bin({i},{w},{lend})")
            if len(b) != max(w, i.bit_length()) and not (w == 0 and i == 0):
                raise Violation("bin|width", f"int_to_bin({i},{w},{lend}) has {len(b)} bits")
            exp = [bool((i >> p) & 1) for p in range(len(b))]
            if not lend:
                exp = exp[::-1]
            if w > 0 and list(b) != exp:
                raise Violation("bin|bits", f"int_to_bin({i},{w},{lend}) = {b}")
            back = need(lib(cg.utils.bin_to_int, b, lend), "bin_to_int", f"bin_to_int({b},{lend})")
            if back != i:
                raise Violation("bin|roundtrip", f"bin_to_int(int_to_bin({i},{w},{lend})) = {back}")
            bl = list(b)
            keep = list(bl)
            again = [need(lib(cg.utils.bin_to_int, bl, lend), "bin_to_int", "bin_to_int(list)") for _ in range(2)]
            if again != [i, i] or bl != keep:
                raise Violation("bin|list_argument", f"bin_to_int on a list: results {again} for {i}, list afterwards {'changed' if bl != keep else 'unchanged'}")
        return {"nontrivial": w >= 2, "labels": ["bin"]}
    raise Violation("harness", f"unknown case kind {k}")
