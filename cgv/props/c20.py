"""C20 -- lint decides well-formedness, and library outputs pass it."""
import itertools

from hypothesis import strategies as st

import circuitgraph as cg
from cgv import refsim, specs
from cgv import strategies as S
from cgv.harness import Violation, lib, need

ID = "C20"
RULE = (
    "cases (a): a generated lint-clean circuit (with blackboxes) plus 0..3 faults injected directly on "
    "the underlying graph / registry from the rule catalogue (missing type attribute, unsupported type, "
    "retype, arbitrary extra edge, removed edge, dotted node without instance, registry entry removed / "
    "added without pins, pin removed, pin retyped, plain node added), evaluated under all 8 flag "
    "combinations x fail_fast in {True, False}: cg.lint must raise ValueError exactly when the reference "
    "rule checker reports >= 1 violation and return None otherwise (two points the property leaves open "
    "-- whether an undriven / unloaded bb_input pin counts under the undriven / unloaded flags -- are "
    "don't-care). cases (b): results of library producers on generated lint-clean arguments (logic "
    "generators, limit_fanin/out, ternary, unroll, fully tied miter, sensitization/sensitivity "
    "transforms, acyclic_unroll, insert_registers, fully connected add_subcircuit / fill_blackbox, "
    "strip-free Verilog/bench round trips, sequential_unroll, supergates super-circuit) must pass both "
    "cg.lint and the reference checker. Non-trivial (a): exactly one injected fault or zero faults; "
    "(b): producer returned a circuit with >= 3 gates. Distinct by digest."
)
RULE += " Added after seeded-change rounds 4-5: strip_blackboxes with ignore_pins as str or list (an input pin or an output pin no instance connects; preferably one whose name contains another pin's name); feed-through child ports in add_subcircuit."
ASSUMPTIONS = [
    "reference rule checker cgv.refsim.ref_lint written from the rule list in property C20 / lint docstring",
    "node names are strings",
    "bb_input pins under the undriven/unloaded flags are don't-care (property does not say whether a pin is a 'gate' / 'unloaded node')",
]
EXHAUSTIVE_NOTE = "core: one minimal violating circuit per rule and its repaired twin, each under all 8 flag combinations x fail_fast"
EXAMPLES = {"quick": 1200, "thorough": 30000}

FLAGS = list(itertools.product((False, True), repeat=3))  # unloaded, undriven, single_input_gates


def _base():
    return {
        "name": "c",
        "nodes": [["a", "input", [], False], ["b", "input", [], False], ["k", "1", [], False],
                  ["g", "and", ["a", "b"], False], ["n", "not", ["g"], True], ["o", "buf", [], True],
                  ["h", "or", ["k", "o"], True]],
        "bbtypes": [["ff", ["d"], ["q"]]],
        "insts": [["u0", 0, {"d": "g", "q": "o"}]],
    }


CORE_FAULTS = [
    [],
    [["del_type", "g"]],
    [["del_type", "o"]],
    [["del_type", "u0.d"]],
    [["set_type", "g", "mux"]],
    [["set_type", "n", ""]],
    [["add_edge", "g", "a"]],
    [["add_edge", "g", "k"]],
    [["set_type", "k", "x"], ["add_edge", "a", "k"]],
    [["set_type", "k", "x"]],
    [["add_edge", "a", "u0.q"]],
    [["add_edge", "a", "n"]],
    [["add_edge", "a", "u0.d"]],
    [["add_edge", "u0.q", "h"]],
    [["add_edge", "u0.q", "n2"], ["add_node", "n2", "buf", True]],
    [["remove_edge", "u0.q", "o"], ["add_node", "n2", "and", True], ["add_edge", "u0.q", "n2"], ["add_edge", "a", "o"]],
    [["add_node", "zz.p", "buf", True], ["add_edge", "a", "zz.p"]],
    [["pop_registry", "u0"]],
    [["add_registry", "u1", 0]],
    [["remove_node", "u0.d"]],
    [["remove_node", "u0.q"], ["add_edge", "a", "o"]],
    [["set_type", "u0.d", "buf"]],
    [["set_type", "u0.q", "input"]],
    [["set_type", "u0.q", "bb_input"]],
    [["remove_edge", "g", "n"]],
    [["remove_edge", "a", "g"]],
    [["remove_edge", "g", "u0.d"]],
    [["add_node", "dead", "and", False], ["add_edge", "a", "dead"], ["add_edge", "b", "dead"]],
    [["add_node", "noout", "input", None]],
]


def core(ctx):
    for f in CORE_FAULTS:
        yield {"kind": "graph", "spec": _base(), "faults": f}
    for w in (1, 2, 3, 5):
        yield {"kind": "producer", "producer": "logic", "arg": w}


FAULT_KINDS = ["del_type", "set_type", "add_edge", "remove_edge", "add_node", "pop_registry",
               "add_registry", "remove_node", "retype_pin"]
BAD_TYPES = ["mux", "", "AND", "dff", "Input", "bb", "and ", "nand2"]
ALL_TYPES = list(refsim.SUPPORTED)


@st.composite
def _graph_case(draw, ctx):
    spec = draw(S.circuit_spec(min_inputs=1, max_inputs=4, min_gates=1, max_gates=8, max_fanin=4,
                               max_insts=2, unconnected_pins=draw(st.booleans()),
                               const_types=("0", "1", "x"), io_outputs=True,
                               outputs=draw(st.sampled_from(["sinks+random", "random"]))))
    if spec["bbtypes"] and draw(st.integers(0, 4)) == 0:
        # a pin whose own name contains a dot: <inst>.<a.b> still belongs to instance <inst>
        for bt in spec["bbtypes"]:
            for lst in (bt[1], bt[2]):
                for i, pn in enumerate(lst):
                    if pn in ("d", "q"):
                        lst[i] = "bus." + pn
        for inst in spec["insts"]:
            inst[2] = {("bus." + k if k in ("d", "q") else k): v for k, v in inst[2].items()}
    if spec["insts"] and draw(st.integers(0, 5)) == 0:
        # instance names that contain a dot themselves (hierarchical names of flattened designs)
        for inst in spec["insts"]:
            inst[0] = "core." + inst[0]
    names = [x[0] for x in spec["nodes"]]
    pins = []
    for iname, ti, conns in spec["insts"]:
        for p in spec["bbtypes"][ti][1] + spec["bbtypes"][ti][2]:
            pins.append(f"{iname}.{p}")
    allnodes = names + pins
    nf = draw(st.sampled_from([0, 1, 1, 1, 1, 2, 3]))
    faults = []
    for _ in range(nf):
        k = draw(st.sampled_from(FAULT_KINDS))
        if k == "del_type":
            faults.append([k, draw(st.sampled_from(allnodes))])
        elif k == "set_type":
            t = draw(st.sampled_from(BAD_TYPES + ALL_TYPES))
            faults.append([k, draw(st.sampled_from(allnodes)), t])
        elif k in ("add_edge", "remove_edge"):
            u = draw(st.sampled_from(allnodes))
            v = draw(st.sampled_from(allnodes))
            faults.append([k, u, v])
        elif k == "add_node":
            nm = draw(st.sampled_from(["zz.p", "u0.extra", "u9.d", "newn", "x.y.z", ".", "newm"]))
            t = draw(st.sampled_from(ALL_TYPES + BAD_TYPES[:2]))
            faults.append([k, nm, t, draw(st.sampled_from([True, False, None]))])
            if draw(st.booleans()):
                faults.append(["add_edge", draw(st.sampled_from(allnodes)), nm])
        elif k == "pop_registry" and spec["insts"]:
            faults.append([k, draw(st.sampled_from([i[0] for i in spec["insts"]]))])
        elif k == "add_registry" and spec["bbtypes"]:
            faults.append([k, draw(st.sampled_from(["u7", "newn", "zz"])), draw(st.integers(0, len(spec["bbtypes"]) - 1))])
        elif k == "remove_node":
            faults.append([k, draw(st.sampled_from(allnodes))])
        elif k == "retype_pin" and pins:
            faults.append(["set_type", draw(st.sampled_from(pins)), draw(st.sampled_from(["buf", "input", "bb_input", "bb_output", "and"]))])
    return {"kind": "graph", "spec": spec, "faults": faults}


PRODUCERS = ["remove_unloaded", "copy_then_edit", "strip_blackboxes", "logic", "limit_fanin", "limit_fanout", "ternary", "unroll", "miter", "sensitization",
             "sensitivity", "acyclic_unroll", "acyclic_unroll_cyc", "insert_registers", "add_subcircuit",
             "fill_blackbox", "verilog_rt", "verilog_fast_rt", "bench_rt", "sequential_unroll", "supergates"]


@st.composite
def _producer_case(draw, ctx):
    p = draw(st.sampled_from(PRODUCERS))
    if p == "logic":
        return {"kind": "producer", "producer": p, "arg": draw(st.integers(1, 12))}
    if p == "copy_then_edit":
        spec = draw(S.circuit_spec(min_inputs=1, max_inputs=3, min_gates=1, max_gates=6, max_fanin=3, max_insts=2))
    elif p == "remove_unloaded":
        spec = draw(S.circuit_spec(min_inputs=1, max_inputs=3, min_gates=2, max_gates=9, max_fanin=3, max_insts=2, outputs="random",
                                   unconnected_pins=draw(st.sampled_from([False, "outputs"]))))
    elif p == "strip_blackboxes":
        pools = (S.BENIGN,) if draw(st.booleans()) else (S.BENIGN[:8], ["u0_q", "u0_d", "u1_q", "u0_clk", "u0_Y", "u0_A", "u1_d"])
        spec = draw(S.circuit_spec(min_inputs=1, max_inputs=3, min_gates=1, max_gates=7, max_fanin=3, max_insts=2, pools=pools,
                                   unconnected_pins=draw(st.sampled_from([False, "outputs"]))))
    elif p == "acyclic_unroll_cyc":
        spec = draw(S.circuit_spec(min_inputs=1, max_inputs=3, min_gates=2, max_gates=7, max_fanin=3, cyclic=True))
    elif p in ("limit_fanin", "limit_fanout", "verilog_rt", "verilog_fast_rt"):
        spec = draw(S.circuit_spec(min_inputs=1, max_inputs=5, min_gates=1, max_gates=9, max_fanin=6, max_insts=1))
    elif p in ("sequential_unroll",):
        spec = draw(S.circuit_spec(min_inputs=1, max_inputs=3, min_gates=1, max_gates=7, max_fanin=3))
    elif p in ("add_subcircuit", "fill_blackbox"):
        # children may themselves contain blackbox instances (nesting)
        spec = draw(S.circuit_spec(min_inputs=1, max_inputs=4, min_gates=1, max_gates=8, max_fanin=4,
                                   max_insts=draw(st.sampled_from([0, 1, 2])), io_outputs=draw(st.booleans())))
    else:
        spec = draw(S.circuit_spec(min_inputs=1, max_inputs=4, min_gates=1, max_gates=8, max_fanin=4,
                                   single_output=(p == "supergates")))
    return {"kind": "producer", "producer": p, "spec": spec, "k": draw(st.integers(2, 4)),
            "n": draw(st.integers(1, 3)), "pick": draw(st.integers(0, 1000))}


def strategy(ctx):
    return st.one_of(_graph_case(ctx), _graph_case(ctx), _producer_case(ctx))


def _apply_faults(c, faults, bbs):
    g = c.graph
    for f in faults:
        k = f[0]
        if k == "del_type":
            if f[1] in g.nodes:
                g.nodes[f[1]].pop("type", None)
        elif k == "set_type":
            if f[1] in g.nodes:
                g.nodes[f[1]]["type"] = f[2]
        elif k == "add_edge":
            if f[1] in g.nodes and f[2] in g.nodes:
                g.add_edge(f[1], f[2])
        elif k == "remove_edge":
            if g.has_edge(f[1], f[2]):
                g.remove_edge(f[1], f[2])
        elif k == "add_node":
            if f[1] not in g.nodes:
                if f[3] is None:
                    g.add_node(f[1], type=f[2])
                else:
                    g.add_node(f[1], type=f[2], output=f[3])
        elif k == "pop_registry":
            c.blackboxes.pop(f[1], None)
        elif k == "add_registry":
            if f[1] not in c.blackboxes and bbs:
                c.blackboxes[f[1]] = bbs[f[2] % len(bbs)]
        elif k == "remove_node":
            if f[1] in g.nodes:
                g.remove_node(f[1])


def _verdicts(c, unloaded, undriven, sig):
    """(must_fail, may_fail): strict and lenient reading of the two open points."""
    v = refsim.ref_lint(c, unloaded=unloaded, undriven=undriven, single_input_gates=sig)
    g = c.graph
    hard = []
    for rule, n in v:
        t = g.nodes[n].get("type") if n in g.nodes else None
        if rule in ("undriven", "unloaded") and t == "bb_input":
            continue
        hard.append((rule, n))
    return hard, v


def _check_graph(case, ctx):
    c, bbs = specs.build(case["spec"], with_bbs=True)
    if refsim.ref_lint(c, undriven=False):
        raise specs.SpecError("generator produced non-lint-clean base circuit")
    _apply_faults(c, case["faults"], bbs)
    snap = refsim.snapshot(c)
    labels = [f"faults_{len(case['faults'])}"]
    rules_seen = set()
    for unloaded, undriven, sig in FLAGS:
        hard, soft = _verdicts(c, unloaded, undriven, sig)
        for r, _ in soft:
            rules_seen.add(r)
        for ff in (True, False):
            out = lib(cg.lint, c, fail_fast=ff, unloaded=unloaded, undriven=undriven, single_input_gates=sig)
            desc = f"lint(fail_fast={ff}, unloaded={unloaded}, undriven={undriven}, single_input_gates={sig})"
            if out.ok:
                if out.value is not None:
                    raise Violation("lint|return", f"{desc} returned {out.value!r}")
                if hard:
                    raise Violation(
                        "lint|silent|" + hard[0][0],
                        f"{desc} accepted a circuit violating {hard[:3]} (faults {case['faults']})",
                    )
            else:
                if out.type != "ValueError":
                    raise Violation(
                        f"lint|wrong_exception|{out.type}",
                        f"{desc} raised {out.text} instead of ValueError (reference violations {soft[:3]}, faults {case['faults']})",
                    )
                if not soft:
                    raise Violation("lint|false_alarm", f"{desc} rejected a rule-conforming circuit: {out.text}")
    if refsim.snapshot(c) != snap:
        raise Violation("lint|mutates", "lint modified the circuit")
    labels += [f"rule_{r}" for r in sorted(rules_seen)]
    if not rules_seen:
        labels.append("clean")
    return {"nontrivial": len(case["faults"]) <= 1, "labels": labels}


def _lint_both(r, what):
    if not isinstance(r, cg.Circuit):
        raise Violation(f"producer|{what}|type", f"{what} returned {type(r).__name__}")
    out = lib(cg.lint, r)
    bad = refsim.ref_lint(r)
    if not out.ok:
        raise Violation(f"producer|{what}|cg_lint", f"{what}: cg.lint rejects the library's own output: {out.text}")
    if bad:
        raise Violation(f"producer|{what}|ref_lint", f"{what}: output violates lint rules {bad[:3]}")
    return sum(1 for n in r.graph.nodes if r.graph.nodes[n].get("type") in refsim.GATES)


def _check_producer(case, ctx):
    p = case["producer"]
    if p == "logic":
        w = case["arg"]
        ng = 0
        for nm, fn in (("adder", lambda: cg.logic.adder(w, carry_in=bool(w & 1), carry_out=bool(w & 2))),
                       ("mux", lambda: cg.logic.mux(w)), ("popcount", lambda: cg.logic.popcount(w)),
                       ("half_adder", cg.logic.half_adder), ("full_adder", cg.logic.full_adder)):
            ng += _lint_both(need(lib(fn), f"producer|{nm}", nm), nm)
        return {"nontrivial": True, "labels": ["producer_logic"]}
    spec = case["spec"]
    c, bbs = specs.build(spec, with_bbs=True)
    if refsim.ref_lint(c):
        raise specs.SpecError("generator produced non-lint-clean circuit")
    names = sorted(c.graph.nodes)
    pick = names[case["pick"] % len(names)]
    res = None
    if p == "copy_then_edit":
        plains = [n for n in names if "." not in n]
        plain = plains[case["pick"] % len(plains)]
        # a copy-producing call, then a legal fully connected edit of one circuit: both must stay lint-clean
        maker = [lambda: cg.tx.relabel(c, {}), lambda: c.copy(), lambda: cg.tx.strip_outputs(c), lambda: cg.tx.limit_fanout(c, 3),
                 lambda: cg.tx.relabel(c, {plain: plain + "_r"})][case["pick"] % 5]
        r = need(lib(maker), "producer|copy_then_edit|make", p)
        tgt, other = (r, c) if case["k"] % 2 else (c, r)
        src = sorted(n for n in tgt.graph.nodes if tgt.graph.nodes[n].get("type") in ("input", "and", "or", "xor", "not", "buf", "nand", "nor", "xnor"))
        if not src:
            return {"nontrivial": False, "labels": ["producer_skipped"]}
        tgt.add("zz_obs", "buf", output=True)
        need(lib(tgt.add_blackbox, cg.generic_flop, "zz_ff", {"clk": src[0], "d": src[-1], "q": "zz_obs"}), "producer|copy_then_edit|add_blackbox", p)
        if tgt.blackboxes and len(tgt.blackboxes) > 1 and case["n"] % 2:
            victim = sorted(k_ for k_ in tgt.blackboxes if k_ != "zz_ff")[0]
            bbv = tgt.blackboxes[victim]
            if not (set(bbv.inputs()) & set(bbv.outputs())):
                fill = cg.Circuit(name="fill")
                for i_ in sorted(bbv.inputs()):
                    fill.add(i_, "input")
                for o_ in sorted(bbv.outputs()):
                    fill.add(o_, "or" if bbv.inputs() else "1", fanin=sorted(bbv.inputs()) if bbv.inputs() else None, output=True)
                need(lib(tgt.fill_blackbox, victim, fill), "producer|copy_then_edit|fill", p)
        _lint_both(other, "untouched circuit after the other one was edited")
        res = tgt
    elif p == "remove_unloaded":
        need(lib(c.remove_unloaded, inputs=False) if case["pick"] % 2 else lib(c.remove_unloaded), "producer|remove_unloaded", p)
        res = c
    elif p == "strip_blackboxes":
        # optionally ignore one pin name (given as str or as list, both documented): an input pin, or an
        # output pin that no instance has connected -- then nothing is left undriven and the result must be lint-clean
        g_ = c.graph
        cands = set()
        for inst_, bb_ in c.blackboxes.items():
            cands |= set(bb_.inputs())
        for pin_ in sorted({p_ for bb_ in c.blackboxes.values() for p_ in bb_.outputs()}):
            if all(pin_ not in bb_.outputs() or not g_.succ[f"{i_}.{pin_}"] for i_, bb_ in c.blackboxes.items()):
                cands.add(pin_)
        cands = sorted(cands)
        allpins = {p_ for bb_ in c.blackboxes.values() for p_ in (bb_.inputs() | bb_.outputs())}
        # prefer a pin whose name contains the name of another pin (sd / d, nq / q, gclk / clk)
        nested = [x for x in cands if any(y != x and y in x for y in allpins)]
        if nested:
            cands = nested
        pick = case.get("pick", 0)
        if cands and pick % 3:
            ign = cands[pick % len(cands)]
            out = lib(cg.tx.strip_blackboxes, c, ign if pick % 2 else [ign])
        else:
            out = lib(cg.tx.strip_blackboxes, c)
        if not out.ok and out.type == "ValueError":
            # documented refusal when a pin name would collide with an existing net
            return {"nontrivial": False, "labels": ["producer_strip_refused"]}
        res = need(out, "producer|strip_blackboxes", p)
    elif p == "limit_fanin":
        res = need(lib(cg.tx.limit_fanin, c, case["k"]), "producer|limit_fanin", p)
    elif p == "limit_fanout":
        res = need(lib(cg.tx.limit_fanout, c, case["k"]), "producer|limit_fanout", p)
    elif p == "ternary":
        res = need(lib(cg.tx.ternary, c), "producer|ternary", p)[0]
    elif p == "unroll":
        outs = sorted(c.outputs() - c.inputs())
        ins = sorted(c.inputs() - c.outputs())
        m = min(len(outs), len(ins), case["n"])
        state = {outs[i]: ins[i] for i in range(m)}
        res = need(lib(cg.tx.unroll, c, case["n"], state), "producer|unroll", p)[0]
    elif p == "miter":
        res = need(lib(cg.tx.miter, c), "producer|miter", p)
    elif p == "sensitization":
        if not c.outputs() or pick not in (refsim.ancestors(c, c.outputs()) | c.outputs()):
            return {"nontrivial": False, "labels": ["producer_skipped"]}
        res = need(lib(cg.tx.sensitization_transform, c, pick), "producer|sensitization", p)
    elif p == "sensitivity":
        if not (refsim.ancestors(c, [pick]) | {pick}) & c.inputs():
            return {"nontrivial": False, "labels": ["producer_skipped"]}
        res = need(lib(cg.tx.sensitivity_transform, c, pick), "producer|sensitivity", p)
    elif p in ("acyclic_unroll", "acyclic_unroll_cyc"):
        if any(u == v for u, v in c.graph.edges):
            return {"nontrivial": False, "labels": ["producer_skipped"]}
        res = need(lib(cg.tx.acyclic_unroll, c), "producer|acyclic_unroll", p)
    elif p == "insert_registers":
        d = max([need(lib(c.fanin_depth, n), "fanin_depth", "fanin_depth") for n in names] + [0])
        if d < 2:
            return {"nontrivial": False, "labels": ["producer_skipped"]}
        res = need(lib(cg.tx.insert_registers, c, min(case["n"], d - 1)), "producer|insert_registers", p)
    elif p in ("add_subcircuit", "fill_blackbox"):
        parent = cg.Circuit(name="parent")
        ins = sorted(c.inputs())
        outs = sorted(c.outputs())
        if set(ins) & set(outs) and p == "fill_blackbox":
            return {"nontrivial": False, "labels": ["producer_skipped"]}
        conns = {}
        for i, n in enumerate(ins):
            parent.add(f"pi{i}", "input")
            conns[n] = f"pi{i}"
        for i, n in enumerate(outs):
            if n in conns:
                continue  # a feed-through port (input that is also an output) is attached on its input side
            parent.add(f"po{i}", "buf", output=True)
            conns[n] = f"po{i}"
        if p == "add_subcircuit":
            need(lib(parent.add_subcircuit, c, "sub", conns), "producer|add_subcircuit", p)
        else:
            bb = cg.BlackBox("blk", ins, outs)
            need(lib(parent.add_blackbox, bb, "sub", conns), "producer|add_blackbox", p)
            _lint_both(parent, "add_blackbox")
            need(lib(parent.fill_blackbox, "sub", c), "producer|fill_blackbox", p)
        res = parent
    elif p in ("verilog_rt", "verilog_fast_rt"):
        txt = need(lib(cg.io.circuit_to_verilog, c), "producer|circuit_to_verilog", p)
        res = need(lib(cg.io.verilog_to_circuit, txt, c.name, blackboxes=bbs, fast=(p == "verilog_fast_rt")),
                   f"producer|{p}", p)
    elif p == "bench_rt":
        if not c.inputs():
            return {"nontrivial": False, "labels": ["producer_skipped"]}
        txt = need(lib(cg.io.circuit_to_bench, c), "producer|circuit_to_bench", p)
        res = need(lib(cg.io.bench_to_circuit, txt, c.name), "producer|bench_to_circuit", p)
    elif p == "sequential_unroll":
        # put a flop between one gate and a new buffer
        gates = [n for n in names if c.graph.nodes[n]["type"] in refsim.GATES]
        d = gates[case["pick"] % len(gates)]
        c.add("qbuf", "buf", output=True)
        c.add("clk", "input")
        c.add_blackbox(cg.generic_flop, "ff0", {"d": d, "q": "qbuf", "clk": "clk"})
        iv_ = [None, "0", "1", {"ff0": "1"}][case["pick"] % 4]
        res = need(lib(cg.tx.sequential_unroll, c, case["n"], "d", "q", initial_values=iv_), "producer|sequential_unroll", p)[0]
    elif p == "supergates":
        res = need(lib(cg.tx.supergates, c, True), "producer|supergates", p)[0]
    ng = _lint_both(res, p)
    return {"nontrivial": ng >= 3, "labels": [f"producer_{p}"]}


def check(case, ctx):
    if case["kind"] == "graph":
        return _check_graph(case, ctx)
    return _check_producer(case, ctx)
