"""C15 -- bench reader and writer are faithful."""
from hypothesis import strategies as st

import circuitgraph as cg
from cgv import refsim, specs
from cgv import strategies as S
from cgv.harness import Violation, lib, need

ID = "C15"
RULE = (
    "cases (reader): bench ASTs -- INPUT/OUTPUT lines, gate lines with upper- or lower-case "
    "BUF/BUFF/NOT/AND/NAND/OR/NOR/XOR/XNOR (fan-in 1..5, also repeated operands), DFF/dff lines, in any line "
    "order (outputs before definitions, D nets defined after the DFF line, DFF chains), with drawn "
    "whitespace at every position the dialect has it (around '=', inside parentheses, after commas, "
    "between INPUT/OUTPUT and '(', leading/trailing blanks, blank lines, '#' comment lines without "
    "gate-like text). Oracle: inputs()/outputs() equal the declared sets; every net's truth table (all "
    "valuations of inputs and flop outputs, <= 10 free else 64 drawn) equals the AST evaluator under "
    "reference simulation; each DFF line is a `dff` instance <q>_dff whose D pin is driven by the D net "
    "and whose Q pin drives the Q net, a buf. cases (round trip): blackbox-free lint-clean circuits with "
    ">= 1 input, with and without constants, outputs that are inputs: bench_to_circuit(circuit_to_bench(c)) "
    "has the same inputs, outputs and the same truth table at every output; also through to_file/from_file "
    "(.bench suffix and fmt='bench'). Non-trivial: >= 3 gates of >= 2 types and (a DFF, or a constant, or "
    "an output declared before its definition). Distinct by digest."
)
RULE += ' Added after seeded-change rounds 4-5: line breaks inside operand lists; net names containing gate keywords (q_buff, notx, andy).'
ASSUMPTIONS = [
    "AST evaluator in this module and reference simulator cgv.refsim",
    "net names match [A-Za-z][A-Za-z0-9_]* (the dialect's identifier), keywords all-upper or all-lower",
    "no whitespace between a gate keyword and '(' (the dialect has none there)",
]
EXHAUSTIVE_NOTE = "core: every gate keyword in both cases x fan-in 1..3; BUFF; constants 0/1 as outputs and as operands through the writer; a 3-flop chain in every line order (6 permutations)"
EXAMPLES = {"quick": 900, "thorough": 25000}

KW = ["buf", "buff", "not", "and", "nand", "or", "nor", "xor", "xnor"]
NAMES = [n for n in S.BENIGN] + ["G10gat", "n_12", "net_3", "a_b", "II7", "x_1_2",
                                 "u0_core_alu_adder_stage3_carry_lookahead_unit_generate_propagate_bit_17_n_4821",
                                 "top_cpu0_decode_pipeline_register_bank_1_write_enable_gated_clock_domain_b_n74",
                                 "x" * 75, "y" * 76, "buffer_en", "q_buff", "n_buf", "n_buff", "BUFFout", "notx", "andy", "xor1"]
WSP = ["", " ", "  ", "\t", " \t "]


def _fn(kw, xs, full):
    t = kw.lower()
    if t == "buff":
        t = "buf"
    return refsim.gate_fn(t, xs, full)


def core(ctx):
    for kw in KW:
        for up in (False, True):
            for k in ([1] if kw in ("buf", "buff", "not") else [1, 2, 3]):
                lines = [["in", "a"], ["in", "b"], ["in", "c"], ["out", "y"],
                         ["gate", "y", kw.upper() if up else kw, ["a", "b", "c"][:k]]]
                yield {"kind": "read", "lines": lines, "ws": None}
    import itertools

    chain = [["dff", "q1", "DFF", "q2"], ["dff", "q2", "dff", "q3"], ["dff", "q3", "DFF", "d"]]
    for perm in itertools.permutations(chain):
        lines = [["in", "d"], ["out", "q1"], ["out", "z"]] + [list(x) for x in perm] + [["gate", "z", "XOR", ["q1", "q2", "q3"]]]
        yield {"kind": "read", "lines": lines, "ws": None}
    for ct in ("0", "1"):
        nodes = [["a", "input", [], False], ["b", "input", [], False], ["k", ct, [], True], ["g", "and", ["a", "k"], True],
                 ["h", "xnor", ["k", "b", "g"], True]]
        yield {"kind": "rt", "spec": {"name": "c", "nodes": nodes, "bbtypes": [], "insts": []}, "route": "string"}


@st.composite
def _bench(draw, ctx):
    n_g = draw(st.integers(1, 8))
    n_ff = draw(st.sampled_from([0, 0, 1, 2, 3]))
    # an autonomous sequential text (counter, toggle flop) has no INPUT line at all
    n_in = draw(st.integers(1, 4)) if (n_ff == 0 or draw(st.integers(0, 3))) else 0
    names = draw(st.lists(st.sampled_from(NAMES), min_size=n_in + n_g + n_ff, max_size=n_in + n_g + n_ff, unique=True))
    inputs = names[:n_in]
    ffq = names[n_in:n_in + n_ff]
    gates = names[n_in + n_ff:]
    lines = [["in", i] for i in inputs]
    avail = inputs + ffq
    defs = []
    for gname in gates:
        kw = draw(st.sampled_from(KW))
        if draw(st.booleans()):
            kw = kw.upper()
        k = 1 if kw.lower() in ("buf", "buff", "not") else draw(st.sampled_from([1, 2, 2, 3, 3, 4, 5, 17, 18, 19, 24]))
        uniq = draw(st.integers(0, 5)) != 0
        ops = draw(st.lists(st.sampled_from(avail), min_size=k, max_size=k, unique=uniq)) if (uniq and k <= len(avail)) else \
            draw(st.lists(st.sampled_from(avail), min_size=k, max_size=k))
        defs.append(["gate", gname, kw, ops])
        avail.append(gname)
    allnets = inputs + ffq + gates
    for q in ffq:
        d = draw(st.sampled_from(allnets))
        defs.append(["dff", q, draw(st.sampled_from(["DFF", "dff"])), d])
    used = set()
    for d in defs:
        used.update(d[3] if d[0] == "gate" else [d[3]])
    outs = [n for n in gates + ffq if n not in used or draw(st.integers(0, 3)) == 0]
    if inputs and draw(st.integers(0, 5)) == 0:
        outs.append(inputs[0])
    if not outs:
        outs = [gates[-1]]
    lines += [["out", o] for o in outs] + defs
    order = draw(st.sampled_from(["canonical", "shuffled", "outputs_last", "defs_reversed"]))
    if order == "shuffled":
        lines = list(draw(st.permutations(lines)))
    elif order == "outputs_last":
        lines = [x for x in lines if x[0] != "out"] + [x for x in lines if x[0] == "out"]
    elif order == "defs_reversed":
        lines = [x for x in lines if x[0] in ("in", "out")] + [x for x in lines if x[0] not in ("in", "out")][::-1]
    if draw(st.integers(0, 3)) == 0:
        lines.insert(draw(st.integers(0, len(lines))), ["comment", draw(st.sampled_from(["# c17", "#", "# 5 inputs", "", "   "]))])
    ws = draw(st.one_of(st.none(), st.lists(st.integers(0, 7), min_size=4, max_size=24)))
    tables = draw(st.lists(st.integers(0, (1 << 64) - 1), min_size=12, max_size=12))
    return {"kind": "read", "lines": lines, "ws": ws, "tables": tables, "lower_io": draw(st.booleans())}


@st.composite
def _rt(draw, ctx):
    wide = draw(st.integers(0, 5)) == 0
    spec = draw(S.circuit_spec(min_inputs=8 if wide else 1, max_inputs=10 if wide else 5, min_gates=1, max_gates=10,
                               max_fanin=24 if wide else 5, pools=(NAMES,), io_outputs=True))
    if wide:
        # one really wide gate over all inputs and gates defined so far
        allsrc = [x[0] for x in spec["nodes"] if x[1] == "input"]
        gates = [x for x in spec["nodes"] if x[1] in S.NARY]
        if gates:
            gt = gates[-1]
            others = [x[0] for x in spec["nodes"] if x[1] in S.ALL_GATES and x is not gt and gt[0] not in x[2]][:12]
            # keep the circuit acyclic: only nodes that do not depend on gt
            dep = {gt[0]}
            changed = True
            while changed:
                changed = False
                for x in spec["nodes"]:
                    if x[0] not in dep and any(f in dep for f in x[2]):
                        dep.add(x[0])
                        changed = True
            gt[2] = list(dict.fromkeys(gt[2] + allsrc + [o for o in others if o not in dep]))
    return {"kind": "rt", "spec": spec, "route": draw(st.sampled_from(["string", "string", "file_suffix", "file_fmt"]))}


def strategy(ctx):
    return st.one_of(_bench(ctx), _bench(ctx), _rt(ctx))


def render(lines, ws, lower_io=False):
    gi = [0]

    def w():
        if ws is None:
            return ""
        v = WSP[ws[gi[0] % len(ws)] % len(WSP)]
        gi[0] += 1
        return v

    def wnl():
        if ws is None:
            return ""
        v = (WSP + ["\n", "\n  ", " \n"])[ws[gi[0] % len(ws)] % (len(WSP) + 3)]
        gi[0] += 1
        return v

    out = []
    for ln in lines:
        if ln[0] == "in":
            out.append(f"{w()}{'input' if lower_io else 'INPUT'}{w()}({w()}{ln[1]}{w()}){w()}")
        elif ln[0] == "out":
            out.append(f"{w()}{'output' if lower_io else 'OUTPUT'}{w()}({w()}{ln[1]}{w()}){w()}")
        elif ln[0] == "gate":
            # inside the parentheses the dialect also allows line breaks
            ops = ("," + (" " if ws is None else "")).join(f"{w()}{o}{wnl()}" for o in ln[3])
            out.append(f"{w()}{ln[1]}{' ' if ws is None else w()}={' ' if ws is None else w()}{ln[2]}({ops}){w()}")
        elif ln[0] == "dff":
            out.append(f"{w()}{ln[1]}{' ' if ws is None else w()}={' ' if ws is None else w()}{ln[2]}({w()}{ln[3]}{w()}){w()}")
        else:
            out.append(ln[1])
    return "\n".join(out) + ("\n" if ws is None or ws[0] % 2 else "")


def _check_read(case, ctx):
    lines = case["lines"]
    text = render(lines, case.get("ws"), case.get("lower_io", False))
    c = need(lib(cg.io.bench_to_circuit, text, "bm"), "bench_read", f"bench_to_circuit on\n{text}\n")
    tail = f"\n--- text ---\n{text}"
    ins = [x[1] for x in lines if x[0] == "in"]
    outs = [x[1] for x in lines if x[0] == "out"]
    gates = {x[1]: x for x in lines if x[0] == "gate"}
    dffs = {x[1]: x for x in lines if x[0] == "dff"}
    if set(c.inputs()) != set(ins):
        raise Violation("bench_read|inputs", f"inputs {sorted(c.inputs())} != declared {sorted(ins)}{tail}")
    if set(c.outputs()) != set(outs):
        raise Violation("bench_read|outputs", f"outputs {sorted(c.outputs())} != declared {sorted(outs)}{tail}")
    bad = refsim.ref_lint(c)
    if bad:
        raise Violation("bench_read|lint", f"parsed circuit violates lint rules {bad[:3]}{tail}")
    g = c.graph
    if set(c.blackboxes) != {f"{q}_dff" for q in dffs}:
        raise Violation("bench_read|instances", f"instances {sorted(c.blackboxes)} != {sorted(f'{q}_dff' for q in dffs)}{tail}")
    for q, ln in dffs.items():
        inst = f"{q}_dff"
        bb = c.blackboxes[inst]
        if set(bb.inputs()) != {"D"} or set(bb.outputs()) != {"Q"}:
            raise Violation("bench_read|dff_type", f"{inst}: pins {sorted(bb.inputs())} / {sorted(bb.outputs())}{tail}")
        if sorted(g.pred[f"{inst}.D"]) != [ln[3]]:
            raise Violation("bench_read|dff_d", f"{inst}.D driven by {sorted(g.pred[f'{inst}.D'])}, netlist says {ln[3]!r}{tail}")
        if sorted(g.succ[f"{inst}.Q"]) != [q] or g.nodes[q].get("type") != "buf":
            raise Violation("bench_read|dff_q", f"{inst}.Q drives {sorted(g.succ[f'{inst}.Q'])} (type {g.nodes[q].get('type') if q in g else None}), expected buf {q!r}{tail}")
    free_ast = sorted(ins + [f"{q}_dff.Q" for q in dffs])
    if sorted(refsim.free_nodes(c)) != free_ast:
        raise Violation("bench_read|free_signals", f"free signals {sorted(refsim.free_nodes(c))} != {free_ast}{tail}")
    if len(free_ast) <= 10 or not case.get("tables"):
        asg, W = refsim.std_assignment(free_ast)
    else:
        W = 64
        tb = case["tables"]
        asg = {n: tb[i % len(tb)] ^ (i // len(tb)) for i, n in enumerate(free_ast)}
    full = (1 << W) - 1
    val = refsim.simulate(c, asg, W)
    memo = {}

    def ev(n):
        if n in memo:
            return memo[n]
        if n in ins:
            r = asg[n]
        elif n in dffs:
            r = asg[f"{n}_dff.Q"]
        else:
            ln = gates[n]
            r = _fn(ln[2], [ev(o) for o in ln[3]], full)
        memo[n] = r
        return r

    for n in list(gates) + list(dffs) + ins:
        if n not in val:
            raise Violation("bench_read|net_missing", f"net {n!r} missing{tail}")
        if val[n] != ev(n):
            j = refsim.bits(val[n] ^ ev(n))[0]
            raise Violation("bench_read|net_value", f"net {n!r} = {(val[n] >> j) & 1}, bench semantics give {(ev(n) >> j) & 1} under { {f: (asg[f] >> j) & 1 for f in free_ast} }{tail}")
    for q, ln in dffs.items():
        if val[f"{q}_dff.D"] != ev(ln[3]):
            raise Violation("bench_read|d_value", f"D pin of {q}_dff does not carry net {ln[3]!r}{tail}")
    pos = {}
    for i, ln in enumerate(lines):
        if ln[0] in ("gate", "dff"):
            pos[ln[1]] = i
    early_out = any(ln[0] == "out" and ln[1] in pos and i < pos[ln[1]] for i, ln in enumerate(lines))
    types = {gates[x][2].lower() for x in gates}
    labels = ["read"]
    for nm, f in (("dff", bool(dffs)), ("output_before_def", early_out), ("ws_random", case.get("ws") is not None),
                  ("dup_operand", any(len(set(gates[x][3])) != len(gates[x][3]) for x in gates)),
                  ("dff_chain", any(ln[3] in dffs for ln in dffs.values()))):
        if f:
            labels.append(nm)
    return {"nontrivial": len(gates) >= 3 and len(types) >= 2 and (bool(dffs) or early_out), "labels": labels}


def _check_rt(case, ctx):
    import os
    import shutil

    c = specs.build(case["spec"])
    if refsim.ref_lint(c):
        raise specs.SpecError("generator produced non-lint-clean circuit")
    snap = refsim.snapshot(c)
    route = case["route"]
    if route == "string":
        txt = need(lib(cg.io.circuit_to_bench, c), "bench_write", "circuit_to_bench")
        c2 = need(lib(cg.io.bench_to_circuit, txt, c.name), "bench_rt_read", f"bench_to_circuit of the writer's output:\n{txt}\n")
    else:
        tdir = os.path.join(ctx.tmp if ctx is not None else "/tmp", "c15")
        shutil.rmtree(tdir, ignore_errors=True)
        os.makedirs(tdir)
        try:
            if route == "file_suffix":
                path = os.path.join(tdir, f"{c.name}.bench")
                need(lib(cg.to_file, c, path, fmt="bench"), "to_file", "to_file(fmt=bench)")
                c2 = need(lib(cg.from_file, path), "from_file", "from_file(.bench)")
            else:
                path = os.path.join(tdir, f"{c.name}.txt")
                need(lib(cg.to_file, c, path, fmt="bench"), "to_file", "to_file(fmt=bench)")
                c2 = need(lib(cg.from_file, path, fmt="bench"), "from_file", "from_file(fmt=bench)")
            with open(path) as f:
                txt = f.read()
        finally:
            shutil.rmtree(tdir, ignore_errors=True)
    if refsim.snapshot(c) != snap:
        raise Violation("bench_write|mutates_argument", "the writer modified its argument")
    tail = f"\n--- text ---\n{txt}"
    if set(c2.inputs()) != set(c.inputs()):
        raise Violation("bench_rt|inputs", f"inputs {sorted(c2.inputs())} != {sorted(c.inputs())}{tail}")
    if set(c2.outputs()) != set(c.outputs()):
        raise Violation("bench_rt|outputs", f"outputs {sorted(c2.outputs())} != {sorted(c.outputs())}{tail}")
    bad = refsim.ref_lint(c2)
    if bad:
        raise Violation("bench_rt|lint", f"round-tripped circuit violates lint rules {bad[:3]}{tail}")
    free = sorted(c.inputs())
    if sorted(refsim.free_nodes(c2)) != free:
        raise Violation("bench_rt|free_signals", f"free signals {sorted(refsim.free_nodes(c2))} != {free}{tail}")
    asg, W = refsim.std_assignment(free)
    v1 = refsim.simulate(c, asg, W)
    v2 = refsim.simulate(c2, asg, W)
    for o in sorted(c.outputs()):
        if v1[o] != v2[o]:
            j = refsim.bits(v1[o] ^ v2[o])[0]
            raise Violation("bench_rt|function", f"output {o!r} = {(v2[o] >> j) & 1} after the round trip, {(v1[o] >> j) & 1} before, under { {f: (asg[f] >> j) & 1 for f in free} }{tail}")
    stt = specs.spec_stats(case["spec"])
    labels = ["rt", route]
    if stt["has_const"]:
        labels.append("const")
    return {"nontrivial": stt["n_gates"] >= 3 and len(stt["gate_types"]) >= 2 and stt["has_const"], "labels": labels}


def check(case, ctx):
    if case["kind"] == "read":
        return _check_read(case, ctx)
    return _check_rt(case, ctx)
