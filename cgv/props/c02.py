"""C02 -- the Verilog parser yields the circuit the netlist denotes."""
import copy

from hypothesis import strategies as st

import circuitgraph as cg
from cgv import refsim, vlog
from cgv import strategies as S
from cgv.harness import Violation, lib, need

ID = "C02"
RULE = (
    "cases: netlist ASTs of the structural subset (one module; input/output/wire declarations with "
    "several names; named primitive instances, several per statement, constants as operands; continuous "
    "assignments, several per statement, over ~ ! & | ^ ~^ ^~ ?: with nesting depth <= 4, explicit and "
    "redundant parentheses, 1'b0/1'b1/1'h0/1'h1; named-port blackbox instances with connected "
    "(net, constant or expression) / `.p()` / omitted pins), items in arbitrary order (use before "
    "definition, declarations after use), implicit nets, escaped identifiers, line and block comments in "
    "the port list and body and before/after the module, drawn whitespace in every token gap (header closed by `);`). The AST is "
    "rendered to text and parsed by verilog_to_circuit. Oracle: inputs()/outputs()/name equal the "
    "declarations; every net of the netlist and every connected blackbox input pin equals the AST "
    "evaluator (Verilog semantics, bit-parallel over all valuations of inputs and blackbox outputs, <= 10 "
    "free, else 64 drawn) under reference simulation of the parsed circuit; every instance is registered "
    "with the right BlackBox and pin wiring. Rejection cases: port list and declarations disagree -> "
    "must raise. Non-trivial: an expression with >= 2 binary operators of different precedence without "
    "parentheses between them, or a ternary, or a primitive with >= 3 inputs, or a blackbox, or use "
    "before definition; every rejection case. Distinct by digest."
)
RULE += ' Added after seeded-change rounds 4-5: other generated netlists parsed earlier in the same process (result must not depend on them); an extra port that names an internal net must be rejected like an undeclared one.'
ASSUMPTIONS = [
    "AST evaluator cgv.vlog (Verilog operator semantics and precedence table) and reference simulator cgv.refsim",
    "grammar limits that define the subset: a unary operator applies to an identifier, constant or parenthesised expression; ?: only at the top of an expression",
    "comment text never contains module/endmodule/');'; net names never contain 'module'",
]
EXHAUSTIVE_NOTE = (
    "core: every expression tree of depth <= 2 over three nets and the five binary operators plus unary ~ on "
    "leaves (minimal parentheses: the whole precedence table at that depth), ternaries over them, every "
    "primitive x arity 1..4, both constant spellings"
)
EXAMPLES = {"quick": 260, "thorough": 8000}

BINOPS = ["&", "|", "^", "~^", "^~"]
VNAMES = [n for n in S.BENIGN if n not in vlog.KEYWORDS]
TOOL = ["not_a", "not_b", "and_a_b", "and_b_a", "or_a_b", "xor_a_b", "xnor_a_b", "and_a_c", "or_b_c", "not_a_0", "and_a_b_0",
        "tie_0", "tie_1", "tie_x", "mux_o_a_b_c", "mux_n_a_b_c", "not_not_a", "and_not_a_b", "or_and_a_b_c", "not_c"]


def _mod(name, inputs, outputs, items, bbtypes=None, ports=None):
    its = [{"k": "input", "nets": list(inputs)}, {"k": "output", "nets": list(outputs)}] + items
    return {"name": name, "ports": ports if ports is not None else list(inputs) + list(outputs), "items": its,
            "bbtypes": bbtypes or []}


def core(ctx):
    leaves = [["id", "a"], ["id", "b"], ["id", "c"], ["not", "~", ["id", "a"]]]
    d1 = [["bin", op, x, y] for op in BINOPS for x in leaves[:3] for y in leaves[:3] if x != y]
    exprs = list(leaves) + d1
    for op in BINOPS:
        for x in d1[::3]:
            for y in leaves:
                if x != y:
                    exprs.append(["bin", op, x, y])
                    exprs.append(["bin", op, y, x])
    exprs += [["not", "!", ["par", e]] for e in d1[::5]]
    exprs += [["tern", x, y, z] for x in leaves[:2] for y in d1[::11] for z in leaves[1:3]]
    chunk = 12
    for i in range(0, len(exprs), chunk):
        part = exprs[i: i + chunk]
        outs = [f"y{j}" for j in range(len(part))]
        items = [{"k": "assign", "assigns": [{"lhs": o, "rhs": e}]} for o, e in zip(outs, part)]
        yield {"mod": _mod("top", ["a", "b", "c"], outs, items), "ws": None, "reject": None}
    for t in S.NARY:
        for k in range(1, 5):
            ins = [["id", x] for x in ["a", "b", "c", "d"][:k]]
            items = [{"k": "gate", "t": t, "insts": [{"name": "g0", "out": "y", "ins": ins}]}]
            yield {"mod": _mod("top", ["a", "b", "c", "d"], ["y"], items), "ws": None, "reject": None}
    for sp in ("1'b0", "1'b1", "1'h0", "1'h1"):
        v = int(sp[-1])
        items = [{"k": "assign", "assigns": [{"lhs": "y", "rhs": ["bin", "^", ["id", "a"], ["const", v, sp]]}]},
                 {"k": "gate", "t": "or", "insts": [{"name": "g1", "out": "z", "ins": [["id", "a"], ["const", v, sp]]}]}]
        yield {"mod": _mod("top", ["a"], ["y", "z"], items), "ws": None, "reject": None}
    base = _mod("top", ["a", "b"], ["y"], [{"k": "gate", "t": "and", "insts": [{"name": "g", "out": "y", "ins": [["id", "a"], ["id", "b"]]}]}])
    for rj in ("port_undeclared", "input_not_in_ports", "output_not_in_ports", "port_internal"):
        yield {"mod": copy.deepcopy(base), "ws": None, "reject": rj}


@st.composite
def _expr(draw, nets, depth, top=True):
    if depth <= 0 or draw(st.integers(0, 4)) == 0:
        k = draw(st.integers(0, 9))
        if k == 0:
            v = draw(st.integers(0, 1))
            return ["const", v, draw(st.sampled_from(["1'b", "1'h"])) + str(v)]
        return ["id", draw(st.sampled_from(nets))]
    k = draw(st.sampled_from(["bin", "bin", "bin", "bin", "not", "par", "tern" if top else "bin"]))
    if k == "bin":
        op = draw(st.sampled_from(BINOPS))
        a = draw(_expr(nets, depth - 1, False))
        b = draw(_expr(nets, depth - 1, False))
        return ["bin", op, a, b]
    if k == "not":
        return ["not", draw(st.sampled_from(["~", "!"])), draw(_expr(nets, depth - 1, False))]
    if k == "par":
        return ["par", draw(_expr(nets, depth - 1, False))]
    return ["tern", draw(_expr(nets, depth - 1, False)), draw(_expr(nets, depth - 1, False)), draw(_expr(nets, depth - 1, False))]


def _dup_parity(e):
    """True if some parity operator has the same net as both direct operands."""
    k = e[0]
    if k == "bin":
        a, b = e[2], e[3]
        while a[0] == "par":
            a = a[1]
        while b[0] == "par":
            b = b[1]
        if e[1] in ("^", "~^", "^~") and a[0] in ("id", "const") and a[:2] == b[:2]:
            return True
        return _dup_parity(e[2]) or _dup_parity(e[3])
    if k in ("par",):
        return _dup_parity(e[1])
    if k == "not":
        return _dup_parity(e[2])
    if k == "tern":
        return any(_dup_parity(s) for s in e[1:])
    return False


@st.composite
def _module(draw, ctx):
    esc = draw(st.integers(0, 3)) == 0
    tool = draw(st.integers(0, 3)) == 0
    pool = VNAMES + (S.ESCAPED if esc else [])
    twins = False
    if not tool and draw(st.integers(0, 4)) == 0:
        # names whose underscore-joins coincide (a_b + c vs a + b_c): the reader names
        # expression gates by joining operand names
        pool = list(S.COMPOUND) + ["s", "sel", "sel_a", "s_a", "b_c_d", "a_b_c_d"] + VNAMES[:6]
        twins = True
    TW = [(["s", "a_b", "c"], ["s", "a", "b_c"]), (["sel", "a_b", "c"], ["sel_a", "b", "c"]), (["a_b", "c", "b"], ["a", "b_c", "b"]),
          (["a", "b_c"], ["a_b", "c"]), (["a_b_c", "a"], ["a_b", "c_a"])]
    twin_pairs = [draw(st.sampled_from(TW)) for _ in range(draw(st.integers(1, 2)))] if twins else []
    twin_names = list(dict.fromkeys(n for l1, l2 in twin_pairs for n in l1 + l2))
    n_in = draw(st.integers(1, 4))
    n_def = draw(st.integers(1, 8))
    if tool:
        # nets named like the names the reader synthesises for expression nodes / constants
        n_in = min(n_in, 3)
        inputs = ["a", "b", "c"][:n_in]
        tpool = TOOL + VNAMES[8:20]
        if ctx.excluded("F18b"):
            tpool = [n for n in tpool if n not in ("tie_0", "tie_1", "tie_x")]
            ctx.count_excluded("F18b", 3)
        fresh = draw(st.lists(st.sampled_from(tpool), min_size=3 * n_def, max_size=3 * n_def, unique=True))
    else:
        pool2 = [n for n in pool if n not in twin_names]
        if twins:
            pool2 = list(dict.fromkeys(pool2 + [n for n in VNAMES[6:40] if n not in twin_names]))
        names = draw(st.lists(st.sampled_from(pool2), min_size=n_in + 3 * n_def + 4, max_size=n_in + 3 * n_def + 4, unique=True))
        inputs = twin_names + names[:n_in]
        fresh = names[n_in:]
    avail = list(inputs)
    defined = []
    stmts = []
    bbtypes = []
    n_bb = 0
    gi = 0
    for d in range(n_def):
        kind = draw(st.sampled_from(["gate", "gate", "assign", "assign", "assign", "bb"]))
        if kind == "gate":
            t = draw(st.sampled_from(S.ALL_GATES))
            k = 1 if t in S.UNARY else draw(st.sampled_from([1, 2, 2, 3, 3, 4]))
            if draw(st.integers(0, 4)) == 0:
                # the same net several times in one primitive (parity gates: pairs cancel)
                ops = draw(st.lists(st.sampled_from(avail + ["1'b0", "1'b1"]), min_size=k, max_size=k + 2))
                if t in S.UNARY:
                    ops = ops[:1]
            else:
                k = min(k, len(avail) + 2)
                ops = draw(st.lists(st.sampled_from(avail + ["1'b0", "1'b1"]), min_size=k, max_size=k, unique=True))
            ins = [["const", int(o[-1]), o] if o.startswith("1'") else ["id", o] for o in ops]
            out = fresh.pop()
            inst = {"name": f"g{gi}", "out": out, "ins": ins}
            gi += 1
            if stmts and stmts[-1]["k"] == "gate" and stmts[-1]["t"] == t and draw(st.booleans()):
                stmts[-1]["insts"].append(inst)
            else:
                stmts.append({"k": "gate", "t": t, "insts": [inst]})
            avail.append(out)
            defined.append(out)
        elif kind == "assign":
            e = draw(_expr(avail, draw(st.integers(1, 4))))
            if ctx.excluded("F19") and _dup_parity(e):
                e = ["id", avail[0]]
            out = fresh.pop()
            a = {"lhs": out, "rhs": e}
            if stmts and stmts[-1]["k"] == "assign" and draw(st.integers(0, 2)) == 0:
                stmts[-1]["assigns"].append(a)
            else:
                stmts.append({"k": "assign", "assigns": [a]})
            avail.append(out)
            defined.append(out)
        else:
            if not bbtypes or (len(bbtypes) < 2 and draw(st.booleans())):
                pin_in = draw(st.lists(st.sampled_from(["d", "clk", "en", "A"]), min_size=0, max_size=3, unique=True))
                pin_out = draw(st.lists(st.sampled_from(["q", "qn", "Y"]), min_size=0 if pin_in else 1, max_size=2, unique=True))
                bbtypes.append([f"cell{len(bbtypes)}", pin_in, pin_out])
            ti = draw(st.integers(0, len(bbtypes) - 1))
            conns = []
            for p in bbtypes[ti][1]:
                how = draw(st.sampled_from(["net", "net", "net", "expr", "const", "empty", "omit"]))
                if how == "net":
                    conns.append([p, ["id", draw(st.sampled_from(avail))]])
                elif how == "expr":
                    e = draw(_expr(avail, 2))
                    if ctx.excluded("F19") and _dup_parity(e):
                        e = ["id", avail[0]]
                    conns.append([p, e])
                elif how == "const":
                    v = draw(st.integers(0, 1))
                    conns.append([p, ["const", v, f"1'b{v}"]])
                elif how == "empty":
                    conns.append([p, None])
            for p in bbtypes[ti][2]:
                how = draw(st.sampled_from(["net", "net", "net", "empty", "omit"]))
                if how == "net":
                    out = fresh.pop()
                    conns.append([p, ["id", out]])
                    avail.append(out)
                    defined.append(out)
                elif how == "empty":
                    conns.append([p, None])
            if not conns:
                conns.append([(bbtypes[ti][1] + bbtypes[ti][2])[0], None])
            conns = draw(st.permutations(conns))
            stmts.append({"k": "bb", "t": ti, "insts": [{"name": f"U{n_bb}", "conns": [list(c) for c in conns]}]})
            n_bb += 1
    if tool and len(inputs) >= 2 and len(fresh) >= 3 and draw(st.booleans()):
        # a sub-expression whose synthesised gate name (and its first uniquified form) are user nets
        sym, nm = draw(st.sampled_from([("&", "and"), ("|", "or"), ("^", "xor"), ("~^", "xnor")]))
        x, y = draw(st.permutations(inputs))[:2]
        base = f"{nm}_{x}_{y}"
        if base not in avail and base + "_0" not in avail and base not in fresh and base + "_0" not in fresh:
            out = fresh.pop()
            e = ["bin", draw(st.sampled_from(["|", "&", "^"])), ["bin", sym, ["id", x], ["id", y]], ["id", draw(st.sampled_from(inputs))]]
            stmts.insert(0, {"k": "assign", "assigns": [{"lhs": out, "rhs": e}]})
            stmts.append({"k": "gate", "t": draw(st.sampled_from(["buf", "not"])), "insts": [{"name": f"g{gi}", "out": base, "ins": [["id", x]]}]})
            stmts.append({"k": "gate", "t": draw(st.sampled_from(["not", "buf"])), "insts": [{"name": f"g{gi + 1}", "out": base + "_0", "ins": [["id", y]]}]})
            gi += 2
            defined += [out, base, base + "_0"]
            avail += [out, base, base + "_0"]
    if len(avail) >= 3 and len(fresh) >= 3 and draw(st.integers(0, 5)) == 0:
        # the same net inverted on its own in one assign and used as the select of a ?: in another, in either order
        # (both need an inverter of that net)
        s_, a_, b_ = draw(st.permutations(avail))[:3]
        inv = {"k": "assign", "assigns": [{"lhs": fresh.pop(), "rhs": ["not", draw(st.sampled_from(["~", "!"])), ["id", s_]]}]}
        mux = {"k": "assign", "assigns": [{"lhs": fresh.pop(), "rhs": ["tern", ["id", s_], ["id", a_], ["id", b_]]}]}
        pair = [inv, mux] if draw(st.booleans()) else [mux, inv]
        stmts += pair
        for st_ in pair:
            defined.append(st_["assigns"][0]["lhs"])
            avail.append(st_["assigns"][0]["lhs"])
    if twins:
        # two expressions of the same shape whose operand names join to the same string
        for l1, l2 in twin_pairs:
            shape = draw(st.sampled_from(["tern", "&", "|", "^", "~^", "not"]))
            for lst in (l1, l2):
                if shape == "tern" and len(lst) == 3:
                    e = ["tern", ["id", lst[0]], ["id", lst[1]], ["id", lst[2]]]
                elif shape == "not":
                    e = ["bin", "&", ["not", "~", ["id", lst[0]]], ["id", lst[1]]]
                else:
                    op = shape if shape != "tern" else "&"
                    e = ["bin", op, ["id", lst[0]], ["id", lst[1]]]
                    if len(lst) == 3:
                        e = ["bin", op, e, ["id", lst[2]]]
                if not fresh:
                    continue
                out = fresh.pop()
                stmts.insert(draw(st.integers(0, len(stmts))), {"k": "assign", "assigns": [{"lhs": out, "rhs": e}]})
                defined.append(out)
                avail.append(out)
    if not defined:
        out = fresh.pop()
        stmts.append({"k": "gate", "t": "buf", "insts": [{"name": f"g{gi}", "out": out, "ins": [["id", inputs[0]]]}]})
        defined.append(out)
    # outputs: sinks plus some others
    used = set()
    for s_ in stmts:
        if s_["k"] == "gate":
            for i in s_["insts"]:
                for e in i["ins"]:
                    used.update(vlog.expr_ids(e))
        elif s_["k"] == "assign":
            for a in s_["assigns"]:
                used.update(vlog.expr_ids(a["rhs"]))
        else:
            pins_in = bbtypes[s_["t"]][1]
            for i in s_["insts"]:
                for p, e in i["conns"]:
                    if e is not None and p in pins_in:
                        used.update(vlog.expr_ids(e))
    outputs = [n for n in defined if n not in used or draw(st.integers(0, 3)) == 0]
    if not outputs:
        outputs = [defined[-1]]
    internal = [n for n in defined if n not in outputs]
    wires = [n for n in internal if draw(st.integers(0, 2)) != 0]
    if draw(st.integers(0, 3)) == 0:
        wires += [o for o in outputs if draw(st.booleans())]
    # declarations split in several statements
    items = []

    def split(kind, nets):
        nets = list(nets)
        while nets:
            k = draw(st.integers(1, len(nets)))
            items.append({"k": kind, "nets": nets[:k]})
            nets = nets[k:]

    split("input", inputs)
    split("output", outputs)
    split("wire", wires)
    items += stmts
    order = draw(st.sampled_from(["decl_first", "shuffled", "stmts_reversed"]))
    if order == "shuffled":
        items = list(draw(st.permutations(items)))
    elif order == "stmts_reversed":
        nd = len(items) - len(stmts)
        items = items[:nd] + items[nd:][::-1]
    # comments
    ports = list(draw(st.permutations(inputs + outputs)))
    if draw(st.integers(0, 2)) == 0:
        texts = [" plain comment ", "assign x = y; and g(a,b)", " input zz ", "***", " wire ", " 1'b0 ~^ ",
                 "*", "**", "* banner **", " text **", "** x *", "*** box ***", " a * b ", " / ", "/", "* /",
                 "", "", " ", "\t", "//", "/"]  # empty comments (a bare // separator line) too
        for _ in range(draw(st.integers(1, 3))):
            cm = {"k": "comment", "text": draw(st.sampled_from(texts)), "style": draw(st.sampled_from(["line", "block"]))}
            pos = draw(st.integers(0, len(items)))
            items.insert(pos, cm)
        if draw(st.booleans()):
            pos = draw(st.integers(0, len(ports)))
            ports.insert(pos, {"k": "comment", "text": draw(st.sampled_from([" port comment ", " clock (rising edge) ", " outputs (2) ", " ) ", " a) b( "])),
                               "style": draw(st.sampled_from(["line", "block"]))})
    if tool and draw(st.booleans()):
        # block comments before and after the statements (a reader that strips comments greedily
        # would lose everything in between)
        items.insert(draw(st.integers(0, 2)), {"k": "comment", "text": " first block ", "style": "block"})
        items.append({"k": "comment", "text": " last block ", "style": "block"})
    name = draw(st.sampled_from(["top", "c17", "my_mod", "M"]))
    return {"name": name, "ports": ports, "items": items, "bbtypes": bbtypes}


@st.composite
def _case(draw, ctx):
    mod = draw(_module(ctx))
    ws = draw(st.one_of(st.none(), st.lists(st.integers(0, 7), min_size=5, max_size=40)))
    rj = draw(st.sampled_from([None] * 9 + ["port_undeclared", "input_not_in_ports", "output_not_in_ports", "port_internal"]))
    tables = draw(st.lists(st.integers(0, (1 << 64) - 1), min_size=16, max_size=16))
    pre = draw(st.sampled_from(["", "", "\n// Generated by some tool 1.2\n// on: Jan 17 2020\n\n", "/* header\n   comment */\n", "\n\n  "]))
    post = draw(st.sampled_from(["", "", "\n// end of file\n", "\n\n"]))
    case = {"mod": mod, "ws": ws, "reject": rj, "tables": tables, "pre": pre, "post": post}
    if draw(st.integers(0, 3)) == 0:
        # other netlists read earlier in the same process: the result must not depend on them
        case["prior"] = [draw(_module(ctx)) for _ in range(draw(st.integers(1, 2)))]
    return case


def strategy(ctx):
    return _case(ctx)


def _precedence_mix(e, parent=None):
    """expression with two binary operators of different precedence and no parentheses between them"""
    k = e[0]
    if k == "bin":
        for sub in (e[2], e[3]):
            if sub[0] == "bin" and vlog.PREC[sub[1]] != vlog.PREC[e[1]] and vlog.PREC[sub[1]] > vlog.PREC[e[1]]:
                return True
            if _precedence_mix(sub):
                return True
        return False
    if k in ("par",):
        return _precedence_mix(e[1])
    if k == "not":
        return _precedence_mix(e[2])
    if k == "tern":
        return any(_precedence_mix(s) for s in e[1:])
    return False


def check(case, ctx):
    mod = copy.deepcopy(case["mod"])
    rj = case.get("reject")
    sem0 = vlog.Semantics(mod)
    if rj == "port_undeclared":
        mod["ports"] = list(mod["ports"]) + ["zz_extra_port"]
    elif rj == "port_internal":
        # an extra port that names an internal (driven, non-io) net: still not declared as input/output
        internal = [n_ for n_ in sem0.drivers if n_ not in sem0.inputs and n_ not in sem0.outputs]
        if not internal:
            return {"nontrivial": False, "labels": ["skipped_no_internal_net"]}
        mod["ports"] = list(mod["ports"]) + [sorted(internal)[(case.get("tables") or [0])[0] % len(internal)]]
    elif rj == "input_not_in_ports":
        victim = sem0.inputs[0]
        mod["ports"] = [p for p in mod["ports"] if p != victim]
    elif rj == "output_not_in_ports":
        victim = sem0.outputs[0]
        mod["ports"] = [p for p in mod["ports"] if p != victim]
    if not [p for p in mod["ports"] if not isinstance(p, dict)]:
        return {"nontrivial": False, "labels": ["skipped_empty_port_list"]}
    text = case.get("pre", "") + vlog.render(mod, case.get("ws"), glue_close="header") + case.get("post", "")
    bbs = [cg.BlackBox(n, list(i), list(o)) for n, i, o in mod["bbtypes"]]
    for pm in case.get("prior", []):
        if [p for p in pm["ports"] if not isinstance(p, dict)]:
            lib(cg.io.verilog_to_circuit, vlog.render(pm, None, glue_close="header"), pm["name"],
                blackboxes=[cg.BlackBox(n, list(i), list(o)) for n, i, o in pm["bbtypes"]])
    out = lib(cg.io.verilog_to_circuit, text, mod["name"], blackboxes=bbs)
    if rj:
        if out.ok:
            raise Violation(f"reject|{rj}", f"port list / declaration mismatch ({rj}) silently accepted:\n{text}")
        return {"nontrivial": True, "labels": [f"reject_{rj}"]}
    c = need(out, "parse", f"verilog_to_circuit on\n{text}\n")
    sem = vlog.Semantics(mod)
    labels = []
    if set(c.inputs()) != set(sem.inputs):
        raise Violation("parse|inputs", f"inputs {sorted(c.inputs())} != declared {sorted(sem.inputs)}\n{text}")
    if set(c.outputs()) != set(sem.outputs):
        raise Violation("parse|outputs", f"outputs {sorted(c.outputs())} != declared {sorted(sem.outputs)}\n{text}")
    if c.name != mod["name"]:
        raise Violation("parse|name", f"name {c.name!r} != {mod['name']!r}")
    # escaped identifiers may legally contain dots: the dotted-name rule is lint's, not C02's
    bad = [v for v in refsim.ref_lint(c, undriven=False) if v[0] != "dotted_no_instance"]
    if bad:
        raise Violation("parse|lint", f"parsed circuit violates wiring rules {bad[:3]}\n{text}")
    g = c.graph
    # blackboxes
    if set(c.blackboxes) != set(sem.bbinsts):
        raise Violation("parse|instances", f"instances {sorted(c.blackboxes)} != {sorted(sem.bbinsts)}\n{text}")
    for inst, (ti, conns) in sem.bbinsts.items():
        if c.blackboxes[inst] is not bbs[ti]:
            raise Violation("parse|instance_type", f"instance {inst} has the wrong BlackBox")
        tname, pin_in, pin_out = mod["bbtypes"][ti]
        for p in pin_in:
            pn = f"{inst}.{p}"
            if pn not in g.nodes or g.nodes[pn].get("type") != "bb_input":
                raise Violation("parse|pin_missing", f"pin {pn} missing or mistyped\n{text}")
            drv = list(g.pred[pn])
            if conns.get(p) is None:
                if drv:
                    raise Violation("parse|unconnected_pin_driven", f"pin {pn} should be unconnected, driven by {drv}\n{text}")
            elif len(drv) != 1:
                raise Violation("parse|pin_driver", f"pin {pn} has drivers {drv}\n{text}")
            elif conns[p][0] == "id" and drv != [conns[p][1]]:
                raise Violation("parse|pin_net", f"pin {pn} is driven by {drv[0]!r}, netlist attaches {conns[p][1]!r}\n{text}")
        for p in pin_out:
            pn = f"{inst}.{p}"
            if pn not in g.nodes or g.nodes[pn].get("type") != "bb_output":
                raise Violation("parse|pin_missing", f"pin {pn} missing or mistyped\n{text}")
            ld = list(g.succ[pn])
            if conns.get(p) is None:
                if ld:
                    raise Violation("parse|unconnected_pin_loaded", f"pin {pn} should be unconnected, drives {ld}\n{text}")
            elif ld != [conns[p][1]]:
                raise Violation("parse|pin_net", f"pin {pn} drives {ld}, netlist attaches {conns[p][1]!r}\n{text}")
    # function of every net
    free = sem.free()
    pfree = set(refsim.free_nodes(c))
    undriven_pins = {f"{i}.{p}" for i, (ti, conns) in sem.bbinsts.items() for p in mod["bbtypes"][ti][1] if conns.get(p) is None}
    if not (set(free) <= pfree and pfree <= set(free) | undriven_pins):
        raise Violation("parse|free_signals", f"free signals of the parsed circuit {sorted(pfree)} vs netlist {sorted(free)}\n{text}")
    if len(free) <= 10 or not case.get("tables"):
        asg, W = refsim.std_assignment(sorted(free))
    else:
        W = 64
        tb = case["tables"]
        asg = {n: tb[i % len(tb)] ^ (i // len(tb)) for i, n in enumerate(sorted(free))}
    asg2 = dict(asg)
    for p in pfree - set(free):
        asg2[p] = 0
    val = refsim.simulate(c, asg2, W)
    nets, pins = sem.evaluate(asg, W)
    for n, v in nets.items():
        if n not in val:
            raise Violation("parse|net_missing", f"net {n!r} of the netlist is not a node of the circuit\n{text}")
        if val[n] != v:
            j = refsim.bits(val[n] ^ v)[0]
            vv = {f: (asg[f] >> j) & 1 for f in sorted(free)}
            raise Violation(
                "parse|net_value",
                f"net {n!r} = {(val[n] >> j) & 1} in the parsed circuit, Verilog semantics give {(v >> j) & 1} under {vv}\n{text}",
            )
    for pn, v in pins.items():
        if val[pn] != v:
            raise Violation("parse|pin_value", f"blackbox input pin {pn!r} does not carry the connected expression\n{text}")
    # labels / non-triviality
    mix = tern = big = ubd = False
    defined_at = {}
    used_at = {}
    for idx, it in enumerate(mod["items"]):
        if it["k"] == "gate":
            for i in it["insts"]:
                defined_at[i["out"]] = idx
                if len(i["ins"]) >= 3:
                    big = True
                for e in i["ins"]:
                    for x in vlog.expr_ids(e):
                        used_at.setdefault(x, idx)
        elif it["k"] == "assign":
            for a in it["assigns"]:
                defined_at[a["lhs"]] = idx
                mix = mix or _precedence_mix(a["rhs"])
                tern = tern or a["rhs"][0] == "tern"
                for x in vlog.expr_ids(a["rhs"]):
                    used_at.setdefault(x, idx)
    for n, u in used_at.items():
        if n in defined_at and u < defined_at[n]:
            ubd = True
    for name, flag in (("precedence_mix", mix), ("ternary", tern), ("primitive_ge3", big), ("use_before_def", ubd),
                       ("blackbox", bool(sem.bbinsts)), ("ws_random", case.get("ws") is not None),
                       ("escaped", any(n.startswith("\\") for n in nets)),
                       ("toollike_names", any(n in TOOL for n in nets)),
                       ("comments", any(it["k"] == "comment" for it in mod["items"]))):
        if flag:
            labels.append(name)
    return {"nontrivial": bool(mix or tern or big or ubd or sem.bbinsts), "labels": labels}
