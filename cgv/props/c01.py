"""C01 -- Tseitin CNF / solve() is exact for circuit semantics."""
from hypothesis import strategies as st

import circuitgraph as cg
from cgv import refsim, specs
from cgv import strategies as S
from cgv.harness import Violation, lib, need

ID = "C01"
RULE = (
    "cases: (small) lint-clean circuit specs with <= 10 nodes over all 8 gate types, fan-in 1..5, "
    "constants, blackbox pins, acyclic or cyclic, names from benign + concatenation-ambiguous + "
    "encoder-like pools (xor_a_b, xor_inv_g ...): every satisfying assignment of sat.cnf(c) is "
    "enumerated bit-parallel (no solver), projected on the node variables and compared as a set with "
    "the reference set of consistent valuations (both directions); sat.solve(c, A) for drawn partial "
    "assignments A (any nodes, possibly contradictory) must be False iff no consistent valuation "
    "agrees with A, else a member of the consistent set with key set = nodes agreeing with A. "
    "(big) acyclic circuits up to 26 nodes / <= 8 startpoints: solve vs reference truth tables. "
    "Unknown assumption names must raise ValueError; type 'x' must be rejected by cnf. "
    "Non-trivial: circuit has a gate with fan-in >= 2 or a parity gate with fan-in >= 3 or a cycle "
    "or a blackbox pin, and (for solve) A constrains a non-startpoint. Every case is judged twice on the same "
    "Circuit object: as built, and after an in-place edit that keeps node and edge counts (one gate retyped), "
    "so that answers cannot depend on what was asked before. Distinct by case digest."
)
RULE += ' Added after seeded-change rounds 4-5: loops made of buffers only (1..6 members, with readers) in the core.'
ASSUMPTIONS = [
    "reference semantics cgv.refsim (consistent valuations by bit-parallel enumeration over all nodes)",
    "the pysat stand-in only runs the library's solve(); route (a) uses no solver at all",
    "sizes bounded: <= 10 nodes (+ aux <= 20 CNF variables) for the set comparison",
]
EXHAUSTIVE_NOTE = (
    "core: every gate type x fan-in 1..5 single-gate circuit; every ordered pair of n-ary types as a "
    "two-level circuit with fan-in 2 and 3; constants; bb_input buffer; 2- and 3-node rings of "
    "not/buf/and/xor; all single-node assumptions on each"
)
EXAMPLES = {"quick": 1500, "thorough": 30000}

NARY = S.NARY


def _single_gate(t, k):
    nodes = [[f"i{j}", "input", [], False] for j in range(k)]
    nodes.append(["g", t, [f"i{j}" for j in range(k)], True])
    return {"name": "c", "nodes": nodes, "bbtypes": [], "insts": []}


def core(ctx):
    for t in NARY:
        for k in range(1, 9):
            yield {"kind": "small", "spec": _single_gate(t, k), "assume": [], "allsingle": True}
    for t in ("buf", "not"):
        yield {"kind": "small", "spec": _single_gate(t, 1), "assume": [], "allsingle": True}
    for t0 in NARY:
        for t1 in NARY:
            for k in (2, 3):
                nodes = [[f"i{j}", "input", [], False] for j in range(k + 1)]
                nodes.append(["m", t0, [f"i{j}" for j in range(k)], False])
                nodes.append(["g", t1, ["m"] + [f"i{j}" for j in range(1, k + 1)][: k - 1], True])
                yield {
                    "kind": "small",
                    "spec": {"name": "c", "nodes": nodes, "bbtypes": [], "insts": []},
                    "assume": [],
                    "allsingle": True,
                }
    for ct in ("0", "1"):
        nodes = [["k", ct, [], True], ["a", "input", [], False], ["g", "xor", ["k", "a"], True]]
        yield {"kind": "small", "spec": {"name": "c", "nodes": nodes, "bbtypes": [], "insts": []},
               "assume": [], "allsingle": True}
    # bb_input acts as a buffer, bb_output is free
    yield {
        "kind": "small",
        "spec": {
            "name": "c",
            "nodes": [["a", "input", [], False], ["n", "not", ["a"], False], ["o", "buf", [], True]],
            "bbtypes": [["ff", ["d"], ["q"]]],
            "insts": [["u0", 0, {"d": "n", "q": "o"}]],
        },
        "assume": [],
        "allsingle": True,
    }
    # rings
    for ring in (["not", "not"], ["not", "buf"], ["not", "not", "not"], ["buf", "buf"],
                 ["not", "buf", "buf"], ["not", "not", "buf"]):
        names = [f"r{i}" for i in range(len(ring))]
        nodes = [[names[i], ring[i], [names[i - 1]], i == 0] for i in range(len(ring))]
        yield {"kind": "small", "spec": {"name": "c", "nodes": nodes, "bbtypes": [], "insts": []},
               "assume": [], "allsingle": True}
    # loops made of buffers only (every member equals every other), with readers hanging on them
    for k in range(1, 7):
        for names in ([f"b{i}" for i in range(k)], ["q", "n1", "w", "fb", "x_", "loop"][:k], [f"r_{9 - i}" for i in range(k)]):
            nodes = [[names[i], "buf", [names[i - 1]], i == 0] for i in range(k)]
            nodes.append(["rd", "buf", [names[k // 2]], True])
            nodes.append(["inv", "not", [names[-1]], True])
            yield {"kind": "small", "spec": {"name": "c", "nodes": nodes, "bbtypes": [], "insts": []},
                   "assume": [[names[0], False], [names[-1], True]] if k > 1 else [], "allsingle": True}
    for t in ("and", "nor", "xor", "xnor", "nand", "or"):
        nodes = [["a", "input", [], False], ["g", t, ["a", "h"], True], ["h", "buf", ["g"], False]]
        yield {"kind": "small", "spec": {"name": "c", "nodes": nodes, "bbtypes": [], "insts": []},
               "assume": [], "allsingle": True}
    yield {"kind": "xtype"}
    # boundary sizes: the empty circuit (one consistent valuation: the empty one), a single input, a single constant
    yield {"kind": "small", "spec": {"name": "c", "nodes": [], "bbtypes": [], "insts": []}, "assume": [], "allsingle": False, "edit": False}
    yield {"kind": "small", "spec": {"name": "c", "nodes": [["a", "input", [], True]], "bbtypes": [], "insts": []}, "assume": [], "allsingle": True}
    yield {"kind": "small", "spec": {"name": "c", "nodes": [["k", "1", [], True]], "bbtypes": [], "insts": []}, "assume": [], "allsingle": True}
    # parity gates in their own fan-in
    for t in ("xor", "xnor"):
        for k in (2, 3, 4):
            nodes = [[f"i{j}", "input", [], False] for j in range(k - 1)] + [["g", t, ["g"] + [f"i{j}" for j in range(k - 1)], True]]
            yield {"kind": "small", "spec": {"name": "c", "nodes": nodes, "bbtypes": [], "insts": []}, "assume": [], "allsingle": True}
    # encoder-like names (aux variable aliasing)
    nodes = [["a", "input", [], False], ["b", "input", [], False], ["c", "input", [], False],
             ["xor_a_b", "input", [], False], ["xor_b_a", "input", [], False],
             ["g", "xor", ["a", "b", "c"], True], ["h", "and", ["xor_a_b", "xor_b_a", "g"], True]]
    yield {"kind": "small", "spec": {"name": "c", "nodes": nodes, "bbtypes": [], "insts": []},
           "assume": [], "allsingle": False}


@st.composite
def _case(draw, ctx):
    mode = draw(st.sampled_from(["small", "small", "small_alias", "small_cyc", "big"]))
    if mode == "small":
        spec = draw(S.circuit_spec(min_inputs=0, max_inputs=draw(st.sampled_from([4, 4, 7])), min_gates=1, max_gates=6, max_fanin=7,
                                   max_insts=1, pools=(S.BENIGN, S.COMPOUND, S.TOOLLIKE)))
    elif mode == "small_alias":
        spec = draw(S.circuit_spec(min_inputs=2, max_inputs=5, min_gates=1, max_gates=5, max_fanin=4,
                                   types=["xor", "xnor", "xor", "xnor", "and", "or", "not"], consts=False,
                                   min_fanin_nary=2, pools=(S.COMPOUND, S.TOOLLIKE)))
    elif mode == "small_cyc":
        spec = draw(S.circuit_spec(min_inputs=0, max_inputs=3, min_gates=2, max_gates=7, max_fanin=4,
                                   cyclic=True, selfloops=draw(st.booleans()),
                                   pools=(S.BENIGN, S.COMPOUND, S.TOOLLIKE)))
    else:
        spec = draw(S.circuit_spec(min_inputs=1, max_inputs=7, min_gates=4, max_gates=18, max_fanin=7,
                                   max_insts=1, pools=(S.BENIGN, S.COMPOUND, S.TOOLLIKE)))
    # keep "small" within the enumeration bound
    names = [x[0] for x in spec["nodes"]]
    pins = []
    for iname, ti, conns in spec["insts"]:
        for p in spec["bbtypes"][ti][1] + spec["bbtypes"][ti][2]:
            pins.append(f"{iname}.{p}")
    allnodes = names + pins
    n_assume = draw(st.sampled_from([0, 1, 1, 2, 2, 3, 4, len(allnodes)]))
    n_assume = min(n_assume, len(allnodes))
    assumed = draw(st.lists(st.sampled_from(allnodes), min_size=n_assume, max_size=n_assume, unique=True))
    vals = draw(st.lists(st.sampled_from([False, True, 0, 1]), min_size=n_assume, max_size=n_assume))
    case = {"kind": "big" if mode == "big" else "small", "spec": spec,
            "assume": [[n, v] for n, v in zip(assumed, vals)], "allsingle": False}
    if draw(st.integers(0, 19)) == 0:
        case["bogus"] = draw(st.sampled_from(["nope", "zz_top", "a.b", ""]))
    return case


def strategy(ctx):
    return _case(ctx)


def _labels(c, spec):
    stt = specs.spec_stats(spec)
    lb = []
    cyc = refsim.has_cycle(c)
    if cyc:
        lb.append("cyclic")
    if stt["has_bb"]:
        lb.append("has_blackbox")
    if stt["parity3"]:
        lb.append("parity_fanin>=3")
    if stt["one_input_nary"]:
        lb.append("one_input_nary")
    if stt["has_const"]:
        lb.append("has_const")
    if any(("_" in x[0]) for x in spec["nodes"]):
        lb.append("adversarial_names")
    nontriv = stt["max_fanin"] >= 2 or stt["parity3"] or cyc or stt["has_bb"]
    return lb, nontriv


def _cnf_projection(c, order):
    """Enumerate all assignments of cnf(c) bit-parallel; project on nodes."""
    r = need(lib(cg.sat.cnf, c), "cnf", "sat.cnf(c)")
    formula, variables = r
    clauses = [list(cl) for cl in formula.clauses]
    node_id = {}
    for n in order:
        node_id[n] = variables.id(n)
    ids = set(node_id.values())
    if len(ids) != len(order):
        raise Violation("cnf|varmap", "two circuit nodes share a CNF variable")
    used = set(abs(l) for cl in clauses for l in cl)
    aux = sorted(used - ids)
    pos = {}
    for i, n in enumerate(order):
        pos[node_id[n]] = i
    for j, v in enumerate(aux):
        pos[v] = len(order) + j
    nv = len(order) + len(aux)
    if nv > 21:
        return None, len(aux)
    W = 1 << nv
    full = (1 << W) - 1
    pat = {v: refsim.pattern(p, nv) for v, p in pos.items()}
    sat = full
    for cl in clauses:
        acc = 0
        for l in cl:
            acc |= pat[abs(l)] if l > 0 else (pat[abs(l)] ^ full)
        sat &= acc
        if not sat:
            break
    # project: OR over the aux (high) bits
    chunk = 1 << len(order)
    cm = (1 << chunk) - 1
    proj = 0
    while sat:
        proj |= sat & cm
        sat >>= chunk
    return proj, len(aux)


def _check_solve(c, order, okmask_fn, assume, where):
    """solve(c, A) against a membership oracle.  okmask_fn(A) -> (satisfiable?, verify(valuation)->str|None)"""
    A = {n: v for n, v in assume}
    out = lib(cg.sat.solve, c, dict(A)) if A else lib(cg.sat.solve, c)
    res = need(out, "solve", f"sat.solve(c, {A})")
    satisfiable, verify = okmask_fn(A)
    if res is False:
        if satisfiable:
            raise Violation("solve|spurious_unsat", f"{where}: solve returned False but a consistent valuation agrees with {A}")
        return "unsat"
    if not isinstance(res, dict):
        raise Violation("solve|type", f"{where}: solve returned {type(res).__name__}")
    if not satisfiable:
        raise Violation("solve|spurious_sat", f"{where}: solve returned a valuation but no consistent valuation agrees with {A}")
    if set(res) != set(order):
        raise Violation("solve|keys", f"{where}: result keys differ from c.nodes(): {sorted(set(res) ^ set(order))}")
    for n, v in A.items():
        if bool(res[n]) != bool(v):
            raise Violation("solve|ignores_assumption", f"{where}: result has {n}={res[n]} but assumed {v}")
    msg = verify(res)
    if msg:
        raise Violation("solve|inconsistent_model", f"{where}: returned valuation is not consistent: {msg}; A={A}")
    return "sat"


RETYPE = {"and": "nor", "nand": "or", "or": "xnor", "nor": "and", "xor": "nand", "xnor": "xor", "buf": "not", "not": "buf"}


def check(case, ctx):
    """Judge the case on the circuit as built, then once more on the SAME Circuit object after an
    in-place edit that keeps node and edge counts (a gate retyped, an operand rewired): the
    encoding must describe the circuit as it is now, whatever was asked about it before."""
    res = _check_once(case, ctx, None)
    if case.get("kind") in ("small", "big") and case.get("edit", True):
        spec = case["spec"]
        gates = [x for x in spec["nodes"] if x[1] in RETYPE and x[2]]
        if gates:
            import copy as _copy

            k = (len(spec["nodes"]) * 7 + len(case.get("assume", []))) % len(gates)
            spec2 = _copy.deepcopy(spec)
            tgt = [x for x in spec2["nodes"] if x[0] == gates[k][0]][0]
            tgt[1] = RETYPE[tgt[1]]
            case2 = dict(case)
            case2["spec"] = spec2
            case2.pop("bogus", None)
            c = res.pop("_circuit", None)
            if c is not None:
                r = lib(c.set_type, tgt[0], tgt[1])
                if r.ok:
                    res2 = _check_once(case2, ctx, c)
                    res2.pop("_circuit", None)
                    res["labels"] = list(res.get("labels", [])) + ["re-queried_after_in_place_edit"]
    res.pop("_circuit", None)
    return res


def _check_once(case, ctx, prebuilt):
    if case["kind"] == "xtype":
        c = cg.Circuit()
        c.add("a", "input")
        c.add("k", "x")
        c.add("g", "and", fanin=["a", "k"], output=True)
        r = lib(cg.sat.cnf, c)
        if r.ok or r.type != "ValueError":
            raise Violation("cnf|xtype", f"cnf of a circuit with an 'x' node: {r.value if r.ok else r.text}")
        return {"nontrivial": False, "labels": ["xtype_rejected"]}
    spec = case["spec"]
    c = prebuilt if prebuilt is not None else specs.build(spec)
    if refsim.ref_lint(c):
        raise specs.SpecError(f"generator produced a non-lint-clean circuit: {refsim.ref_lint(c)[:3]}")
    labels, nontriv = _labels(c, spec)
    order = sorted(refsim.nodes(c))
    assume = [[n, v] for n, v in case.get("assume", [])]
    startpoints = set(refsim.free_nodes(c))

    if "bogus" in case and case["bogus"] not in c.graph.nodes:
        r = lib(cg.sat.solve, c, {case["bogus"]: True})
        if r.ok or r.type != "ValueError":
            raise Violation("solve|bogus_name", f"assumption on unknown node {case['bogus']!r}: {r.value if r.ok else r.text}")
        labels.append("bogus_assumption_rejected")

    if case["kind"] == "small" and len(order) <= 11:
        _, ok = refsim.consistent_mask(c, order)
        proj, naux = _cnf_projection(c, order)
        if proj is not None:
            labels.append("cnf_set_compared")
            if naux:
                labels.append("cnf_has_aux")
            if proj != ok:
                lost = ok & ~proj
                inv = proj & ~ok
                if lost:
                    j = refsim.bits(lost)[0]
                    val = {n: (j >> i) & 1 for i, n in enumerate(order)}
                    raise Violation("cnf|lost_valuation", f"consistent valuation {val} is not a model of cnf(c) ({refsim.popcount(lost)} lost)")
                j = refsim.bits(inv)[0]
                val = {n: (j >> i) & 1 for i, n in enumerate(order)}
                raise Violation("cnf|invented_valuation", f"cnf(c) admits {val} which is not consistent ({refsim.popcount(inv)} invented)")
        k = len(order)
        pat = {n: refsim.pattern(i, k) for i, n in enumerate(order)}
        full = (1 << (1 << k)) - 1

        def oracle(A):
            m = ok
            for n, v in A.items():
                m &= pat[n] if v else (pat[n] ^ full)

            def verify(res):
                j = sum((1 << i) for i, n in enumerate(order) if res[n])
                return None if (ok >> j) & 1 else f"valuation {dict(res)}"

            return bool(m), verify

        sets = [assume]
        if case.get("allsingle"):
            sets = [[]] + [[[n, v]] for n in order for v in (False, True)]
            sets += [[[order[0], True], [order[-1], False]], [[order[0], False], [order[-1], True]]]
        outcomes = set()
        for a in sets:
            outcomes.add(_check_solve(c, order, oracle, a, "small"))
        labels += [f"solve_{o}" for o in outcomes]
        internal = any(n not in startpoints for n, _ in assume) or case.get("allsingle")
        if refsim.has_cycle(c):
            # how many input valuations have 0 or >=2 stable states: only a label
            labels.append("cyclic_small")
        return {"nontrivial": bool(nontriv and internal), "labels": labels, "_circuit": c}

    # big (or small that exceeded the bound): acyclic route via truth tables
    if refsim.has_cycle(c):
        return {"nontrivial": False, "labels": labels + ["skipped_big_cyclic"]}
    free = refsim.free_nodes(c)
    if len(free) > 9:
        return {"nontrivial": False, "labels": labels + ["skipped_too_many_startpoints"]}
    asg, W = refsim.std_assignment(free)
    val = refsim.simulate(c, asg, W)
    full = (1 << W) - 1

    def oracle(A):
        m = full
        for n, v in A.items():
            m &= val[n] if v else (val[n] ^ full)

        def verify(res):
            j = sum((1 << i) for i, n in enumerate(free) if res[n])
            bad = [n for n in order if bool(res[n]) != bool((val[n] >> j) & 1)]
            return None if not bad else f"nodes {bad[:4]} differ from simulation under the returned startpoint values"

        return bool(m), verify

    o = _check_solve(c, order, oracle, assume, "big")
    labels += ["big", f"solve_{o}"]
    # each startpoint assignment extends to exactly one valuation: full assignment simulation
    if free:
        j = (len(order) * 2654435761 + len(spec["nodes"])) % W
        A = [[n, bool((j >> i) & 1)] for i, n in enumerate(free)]
        _check_solve(c, order, oracle, A, "big/full-startpoint-assignment")
    internal = any(n not in startpoints for n, _ in assume)
    return {"nontrivial": bool(nontriv and internal), "labels": labels, "_circuit": c}
